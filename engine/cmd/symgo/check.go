package main

import (
	"bytes"
	"crypto/sha256"
	"encoding/hex"
	"encoding/json"
	"flag"
	"fmt"
	"math/big"
	"os"
	"os/exec"
	"path/filepath"
	"runtime"
	"sort"
	"strconv"
	"strings"
	"sync"
	"time"

	"symgo/sym"
)

// ---- configuration ----

type TierCfg struct {
	Params      map[string]string `json:"params"`
	Unwind      int               `json:"unwind"`
	MaxAlloc    int               `json:"maxalloc"`
	MaxPaths    int               `json:"maxpaths"`
	TimeoutMs   int               `json:"timeout_ms"`
	JobTimeoutS int               `json:"job_timeout_s"`
	Solver      string            `json:"solver"`
	Merge       []string          `json:"merge"`
}

type HarnessCfg struct {
	Name         string   `json:"name"`
	Obligation   string   `json:"obligation"`
	Quick        *TierCfg `json:"quick"`
	Thorough     *TierCfg `json:"thorough"`
	RequireReach []string `json:"require_reach"`
	AllowPanic   bool     `json:"allow_panic"`
}

type CheckCfg struct {
	Property    string       `json:"property"`
	Packages    []string     `json:"packages"`
	Assumptions []string     `json:"assumptions"`
	Stubs       []string     `json:"stubs"`
	Outside     []string     `json:"outside_claim"`
	Harnesses   []HarnessCfg `json:"harnesses"`
}

type KnownFinding struct {
	Property string `json:"property"`
	Harness  string `json:"harness"`
	Kind     string `json:"kind"`
	Label    string `json:"label"`
	SiteFn   string `json:"site_fn"`
	What     string `json:"what"`
	Status   string `json:"status"` // known | fixed
	Commit   string `json:"commit,omitempty"`
	// Params, when given, restricts the entry to the runs whose shape parameters have these
	// values: a violation of the same obligation under other parameters is still reported
	Params map[string]int `json:"params,omitempty"`
}

func parseRange(s string) []int {
	var out []int
	for _, part := range strings.Split(s, ",") {
		part = strings.TrimSpace(part)
		if i := strings.Index(part, ".."); i >= 0 {
			lo, _ := strconv.Atoi(part[:i])
			hi, _ := strconv.Atoi(part[i+2:])
			for v := lo; v <= hi; v++ {
				out = append(out, v)
			}
			continue
		}
		v, err := strconv.Atoi(part)
		if err == nil {
			out = append(out, v)
		}
	}
	return out
}

func product(params map[string]string) []map[string]int {
	keys := make([]string, 0, len(params))
	for k := range params {
		keys = append(keys, k)
	}
	sort.Strings(keys)
	res := []map[string]int{{}}
	for _, k := range keys {
		vals := parseRange(params[k])
		var nr []map[string]int
		for _, m := range res {
			for _, v := range vals {
				c := map[string]int{}
				for kk, vv := range m {
					c[kk] = vv
				}
				c[k] = v
				nr = append(nr, c)
			}
		}
		res = nr
	}
	return res
}

// ---- jobs ----

type job struct {
	h      *HarnessCfg
	tier   *TierCfg
	params map[string]int
	res    *jobResult
}

type jobResult struct {
	Stats     sym.Stats
	Findings  []sym.Finding
	Witnesses map[string]*sym.Witness
	Queries   [3]int
	SolverS   float64
	SolverErr []string
	WallS     float64
	Err       string
}

func runJob(prog *sym.Program, j *job) {
	t0 := time.Now()
	lim := sym.DefaultLimits()
	t := j.tier
	if t.Unwind > 0 {
		lim.Unwind = t.Unwind
	}
	if t.MaxAlloc > 0 {
		lim.MaxAlloc = t.MaxAlloc
	}
	if t.MaxPaths > 0 {
		lim.MaxPaths = t.MaxPaths
	}
	if t.TimeoutMs > 0 {
		lim.TimeoutMs = t.TimeoutMs
	}
	jt := 600
	if t.JobTimeoutS > 0 {
		jt = t.JobTimeoutS
	}
	lim.Deadline = time.Now().Add(time.Duration(jt) * time.Second)
	solver := t.Solver
	if solver == "" {
		solver = "z3"
	}
	res := &jobResult{}
	j.res = res
	defer func() {
		if r := recover(); r != nil {
			res.Err = fmt.Sprint(r)
		}
		res.WallS = time.Since(t0).Seconds()
	}()
	ex, err := sym.NewExec(prog, j.h.Name, j.params, lim, solver)
	if err != nil {
		res.Err = err.Error()
		return
	}
	defer ex.Close()
	ex.AllowPanic = j.h.AllowPanic
	for _, m := range t.Merge {
		ex.AddMerge(m)
	}
	ex.RunHarness()
	res.Stats = ex.Stats
	res.Findings = ex.Findings
	res.Witnesses = ex.Witnesses
	res.Queries, res.SolverS, res.SolverErr = ex.SolverStats()
}

// ---- native replay ----

type replayCase struct {
	ID      string            `json:"id"`
	Harness string            `json:"harness"` // function name only
	Stream  map[string]string `json:"stream"`
	// bookkeeping (not read by verifrt)
	FullHarness string         `json:"full_harness"`
	Params      map[string]int `json:"params"`
	Expect      string         `json:"expect"`
	Property    string         `json:"property"`
	Kind        string         `json:"kind"`
	Label       string         `json:"label"`
	Site        string         `json:"site"`
}

type replayOutcome struct {
	ID      string   `json:"id"`
	Outcome string   `json:"outcome"`
	Trace   []string `json:"trace"`
}

func streamToStrings(st map[string]interface{}, params map[string]int) map[string]string {
	out := map[string]string{}
	for k, v := range st {
		out[k] = fmt.Sprint(v)
	}
	for k, v := range params {
		out["param:"+k] = strconv.Itoa(v)
	}
	return out
}

func splitHarness(full string) (pkgRel, fn string) {
	i := strings.LastIndex(full, ".")
	return full[:i], full[i+1:]
}

// nativeRun executes cases of one package natively through go test -overlay.
func nativeRun(repo, verif, scratch, pkgRel string, harnessFns []string, cases []replayCase) (map[string]replayOutcome, string, error) {
	os.MkdirAll(scratch, 0755)
	tag := strings.ReplaceAll(pkgRel, "/", "_")
	pkgName, err := packageName(repo, pkgRel)
	if err != nil {
		return nil, "", err
	}
	var tb bytes.Buffer
	fmt.Fprintf(&tb, "//go:build verif\n\npackage %s\n\nimport (\n\t\"testing\"\n\n\t\"github.com/codenotary/immudb/embedded/verifrt\"\n)\n\n", pkgName)
	fmt.Fprintf(&tb, "func TestVerifReplay(t *testing.T) {\n\tverifrt.RunReplay(t, map[string]func(){\n")
	for _, f := range harnessFns {
		fmt.Fprintf(&tb, "\t\t%q: %s,\n", f, f)
	}
	fmt.Fprintf(&tb, "\t})\n}\n")
	testFile := filepath.Join(scratch, "replay_"+tag+"_test.go")
	if err := os.WriteFile(testFile, tb.Bytes(), 0644); err != nil {
		return nil, "", err
	}
	repl := map[string]string{
		filepath.Join(repo, "embedded/verifrt/verifrt.go"):     filepath.Join(verif, "engine/verifrt/verifrt.go"),
		filepath.Join(repo, pkgRel, "zz_verif_replay_test.go"): testFile,
	}
	hroot := filepath.Join(verif, "harness")
	filepath.Walk(hroot, func(p string, info os.FileInfo, err error) error {
		if err == nil && !info.IsDir() && strings.HasSuffix(p, ".go") {
			rel, _ := filepath.Rel(hroot, p)
			repl[filepath.Join(repo, rel)] = p
		}
		return nil
	})
	ip, err := interposeOverlays(repo, verif, scratch, pkgRel)
	if err != nil {
		return nil, "", err
	}
	for k, v := range ip {
		repl[k] = v
	}
	ovb, _ := json.Marshal(map[string]interface{}{"Replace": repl})
	ovFile := filepath.Join(scratch, "overlay_"+tag+".json")
	os.WriteFile(ovFile, ovb, 0644)
	inFile := filepath.Join(scratch, "cases_"+tag+".json")
	outFile := filepath.Join(scratch, "outcomes_"+tag+".json")
	cb, _ := json.Marshal(cases)
	os.WriteFile(inFile, cb, 0644)
	os.Remove(outFile)
	cmd := exec.Command("go", "test", "-tags", "verif", "-vet=off", "-count=1", "-overlay", ovFile, "-run", "^TestVerifReplay$", "-timeout", "20m", "./"+pkgRel)
	cmd.Dir = repo
	env := []string{}
	for _, e := range os.Environ() {
		if strings.HasPrefix(e, "GOTOOLCHAIN=") || strings.HasPrefix(e, "GOFLAGS=") || strings.HasPrefix(e, "PATH=") {
			continue
		}
		env = append(env, e)
	}
	path := os.Getenv("VERIF_ORIG_PATH")
	if path == "" {
		path = "/usr/local/sbin:/usr/local/bin:/usr/sbin:/usr/bin:/sbin:/bin"
	}
	env = append(env, "PATH="+path, "GOFLAGS=-mod=mod", "GOPROXY=off", "VERIF_REPLAY_FILE="+inFile, "VERIF_REPLAY_OUT="+outFile)
	cmd.Env = env
	out, runErr := cmd.CombinedOutput()
	res := map[string]replayOutcome{}
	data, err := os.ReadFile(outFile)
	if err != nil {
		return res, string(out), fmt.Errorf("native run produced no outcomes (%v): %.2000s", runErr, string(out))
	}
	var outs []replayOutcome
	if err := json.Unmarshal(data, &outs); err != nil {
		return res, string(out), err
	}
	for _, o := range outs {
		res[o.ID] = o
	}
	return res, string(out), nil
}

func packageName(repo, pkgRel string) (string, error) {
	ents, err := os.ReadDir(filepath.Join(repo, pkgRel))
	if err != nil {
		return "", err
	}
	for _, e := range ents {
		if strings.HasSuffix(e.Name(), ".go") && !strings.HasSuffix(e.Name(), "_test.go") {
			b, err := os.ReadFile(filepath.Join(repo, pkgRel, e.Name()))
			if err != nil {
				continue
			}
			for _, l := range strings.Split(string(b), "\n") {
				l = strings.TrimSpace(l)
				if strings.HasPrefix(l, "package ") {
					return strings.Fields(l)[1], nil
				}
			}
		}
	}
	return "", fmt.Errorf("no package clause in %s", pkgRel)
}

// ---- the check command ----

func checkCmd(args []string) int {
	fs := flag.NewFlagSet("check", flag.ExitOnError)
	repo := fs.String("repo", "/repo", "")
	verif := fs.String("verif", "/verif", "")
	tier := fs.String("tier", "quick", "")
	only := fs.String("only", "", "run only harnesses whose name contains this")
	replay := fs.String("replay", "", "replay a recorded case natively")
	strict := fs.Bool("strict", false, "non-zero exit on any incompleteness")
	workers := fs.Int("j", runtime.NumCPU(), "")
	noNative := fs.Bool("no-native", false, "skip native replay/validation (development)")
	fs.Parse(args)
	if *replay != "" {
		return replayCmd(*repo, *verif, *replay)
	}
	if fs.NArg() < 1 {
		fmt.Println("usage: symgo check [flags] <property>")
		return 2
	}
	if t := os.Getenv("VERIF_TIER"); t != "" && *tier == "" {
		*tier = t
	}
	prop := fs.Arg(0)
	seed := 0
	if s := os.Getenv("VERIF_SEED"); s != "" {
		seed, _ = strconv.Atoi(s)
	}
	t0 := time.Now()
	cfgData, err := os.ReadFile(filepath.Join(*verif, "checks", prop+".json"))
	if err != nil {
		fmt.Println("cannot read check config:", err)
		return 2
	}
	var cfg CheckCfg
	if err := json.Unmarshal(cfgData, &cfg); err != nil {
		fmt.Println("bad check config:", err)
		return 2
	}
	var known []KnownFinding
	if b, err := os.ReadFile(filepath.Join(*verif, "known_findings.json")); err == nil {
		if err := json.Unmarshal(b, &known); err != nil {
			fmt.Println("bad known_findings.json:", err)
			return 2
		}
	}
	ev := newEvidence(prop, *tier, seed, &cfg)
	evPath := filepath.Join(*verif, "evidence", prop+".json")
	os.MkdirAll(filepath.Dir(evPath), 0755)

	ov, err := sym.Overlay(*repo, *verif)
	if err != nil {
		fmt.Println("overlay:", err)
		return 2
	}
	prog, err := sym.Load(*repo, ov, cfg.Packages...)
	if err != nil {
		// the edited tree (or a harness against it) does not load: inconclusive, never a violation
		fmt.Printf("INCONCLUSIVE property=%s harnesses do not load against the current tree: %v\n", prop, err)
		ev.Incomplete = true
		ev.Notes = append(ev.Notes, "load failure: "+err.Error())
		ev.write(evPath, time.Since(t0).Seconds())
		if *strict {
			return 3
		}
		return 0
	}
	loadS := time.Since(t0).Seconds()

	// enumerate jobs
	var jobs []*job
	for i := range cfg.Harnesses {
		h := &cfg.Harnesses[i]
		if *only != "" && !strings.Contains(h.Name, *only) {
			continue
		}
		tc := h.Quick
		if *tier == "thorough" && h.Thorough != nil {
			tc = h.Thorough
		}
		if tc == nil {
			continue
		}
		if prog.Harness(h.Name) == nil {
			fmt.Printf("INCONCLUSIVE harness=%s not found in the loaded program\n", h.Name)
			ev.Incomplete = true
			continue
		}
		for _, pm := range product(tc.Params) {
			jobs = append(jobs, &job{h: h, tier: tc, params: pm})
		}
	}
	// run
	var wg sync.WaitGroup
	ch := make(chan *job)
	for w := 0; w < *workers; w++ {
		wg.Add(1)
		go func() {
			defer wg.Done()
			for j := range ch {
				runJob(prog, j)
			}
		}()
	}
	for _, j := range jobs {
		ch <- j
	}
	close(ch)
	wg.Wait()
	exploreS := time.Since(t0).Seconds() - loadS
	if os.Getenv("VERIF_SLOW") != "" {
		sj := append([]*job(nil), jobs...)
		sort.Slice(sj, func(a, b int) bool { return sj[a].res.WallS > sj[b].res.WallS })
		for i := 0; i < 12 && i < len(sj); i++ {
			fmt.Printf("slow job %.1fs %s %v queries=%v unknownfeas=%d paths=%d\n", sj[i].res.WallS, sj[i].h.Name, sj[i].params, sj[i].res.Queries, sj[i].res.Stats.UnknownFeas, sj[i].res.Stats.Paths)
		}
	}

	// aggregate
	type hAgg struct {
		jobs, paths, states, branches int
		held, failed, unknown, checked int
		reach                          map[string]int
		incomplete                     []string
		funcs                          map[string]bool
		wit                            map[string]*replayCase
	}
	aggs := map[string]*hAgg{}
	var cases []replayCase
	caseN := 0
	for _, j := range jobs {
		a := aggs[j.h.Name]
		if a == nil {
			a = &hAgg{reach: map[string]int{}, funcs: map[string]bool{}, wit: map[string]*replayCase{}}
			aggs[j.h.Name] = a
		}
		r := j.res
		a.jobs++
		if r.Err != "" {
			a.incomplete = append(a.incomplete, fmt.Sprintf("job %v: engine error: %s", j.params, r.Err))
			continue
		}
		st := r.Stats
		a.paths += st.Paths
		a.states += st.States
		a.branches += st.Branches
		a.held += st.AssertHeld
		a.failed += st.AssertFailed
		a.unknown += st.AssertUnknown
		a.checked += st.AssertChecked
		ev.Queries["sat"] += r.Queries[1]
		ev.Queries["unsat"] += r.Queries[0]
		ev.Queries["unknown"] += r.Queries[2]
		ev.SolverS += r.SolverS
		ev.Merged += st.Merged
		for f := range st.Funcs {
			a.funcs[f] = true
		}
		for k, v := range st.ReachCount {
			a.reach[k] += v
		}
		for k, v := range st.Unsupported {
			a.incomplete = append(a.incomplete, fmt.Sprintf("job %v: %s (x%d)", j.params, k, v))
		}
		if st.Budget {
			a.incomplete = append(a.incomplete, fmt.Sprintf("job %v: path/time budget exhausted", j.params))
		}
		if st.AssertUnknown > 0 {
			a.incomplete = append(a.incomplete, fmt.Sprintf("job %v: %d assertion queries unknown", j.params, st.AssertUnknown))
		}
		for _, e := range r.SolverErr {
			a.incomplete = append(a.incomplete, fmt.Sprintf("job %v: solver error: %.200s", j.params, e))
		}
		pkgRel, fn := splitHarness(j.h.Name)
		_ = pkgRel
		for _, f := range r.Findings {
			caseN++
			exp := "assert:" + f.Label
			if f.Kind == "panic" {
				exp = "panic:"
			}
			if f.Kind == "alloc" {
				exp = "alloc:"
			}
			cases = append(cases, replayCase{ID: fmt.Sprintf("f%d", caseN), Harness: fn, FullHarness: j.h.Name,
				Stream: streamToStrings(f.Stream, j.params), Params: j.params, Expect: exp, Property: prop,
				Kind: f.Kind, Label: f.Label, Site: f.Site})
		}
		for lbl, w := range r.Witnesses {
			if _, ok := a.wit[lbl]; ok {
				continue
			}
			caseN++
			rc := replayCase{ID: fmt.Sprintf("w%d", caseN), Harness: fn, FullHarness: j.h.Name,
				Stream: streamToStrings(w.Stream, j.params), Params: j.params, Expect: "reach " + lbl, Property: prop, Kind: "witness", Label: lbl}
			a.wit[lbl] = &rc
		}
	}
	for _, a := range aggs {
		for _, rc := range a.wit {
			cases = append(cases, *rc)
		}
	}

	// native replay + translator validation, per package
	scratch := filepath.Join(*verif, "replay", prop)
	os.RemoveAll(scratch)
	os.MkdirAll(scratch, 0755)
	outcomes := map[string]replayOutcome{}
	nativeFailed := map[string]string{}
	if !*noNative && len(cases) > 0 {
		byPkg := map[string][]replayCase{}
		for _, c := range cases {
			p, _ := splitHarness(c.FullHarness)
			byPkg[p] = append(byPkg[p], c)
		}
		for p, cs := range byPkg {
			fns := prog.HarnessFuncs(p)
			res, out, err := nativeRun(*repo, *verif, scratch, p, fns, cs)
			if err != nil {
				nativeFailed[p] = err.Error()
				os.WriteFile(filepath.Join(scratch, "native_"+strings.ReplaceAll(p, "/", "_")+".log"), []byte(out), 0644)
			}
			for k, v := range res {
				outcomes[k] = v
			}
		}
	}
	// concrete-mode re-execution of witnesses (executor vs native traces)
	validated, mismatches := 0, 0
	mismatchH := map[string]bool{}
	if !*noNative {
		for _, c := range cases {
			if c.Kind != "witness" {
				continue
			}
			o, ok := outcomes[c.ID]
			if !ok {
				continue
			}
			conc := concreteTrace(prog, c)
			nat := o.Trace
			if o.Outcome == "assume-false" {
				nat = append(append([]string(nil), nat...), "assume-false")
			}
			reached := false
			for _, t := range nat {
				if t == c.Expect {
					reached = true
				}
			}
			same := reached && strings.Join(conc, "|") == strings.Join(nat, "|")
			if same {
				validated++
			} else {
				mismatches++
				mismatchH[c.FullHarness] = true
				fmt.Printf("INCONCLUSIVE harness=%s translator mismatch on witness %q: native=%v (%s) executor=%v\n", c.FullHarness, c.Label, nat, o.Outcome, conc)
			}
		}
	}

	// verdicts
	exit := 0
	violations := 0
	knownHit := map[string]bool{}
	vcount := map[string]int{}
	var confirmedSamples []interface{}
	for _, c := range cases {
		if c.Kind == "witness" {
			continue
		}
		o, ok := outcomes[c.ID]
		confirmed := false
		if ok {
			if c.Kind == "panic" {
				confirmed = strings.HasPrefix(o.Outcome, "panic:")
			} else if c.Kind == "alloc" {
				confirmed = strings.HasPrefix(o.Outcome, "alloc:")
			} else {
				// any native assertion failure (or panic) of the harness on these inputs is a
				// violation; the label may differ because the executor continues past a failed
				// assertion under the assumption that it held
				confirmed = o.Outcome == c.Expect || strings.HasPrefix(o.Outcome, "assert:") || strings.HasPrefix(o.Outcome, "panic:")
			}
		}
		if *noNative {
			fmt.Printf("CANDIDATE property=%s harness=%s kind=%s label=%s site=%s params=%v\n", prop, c.FullHarness, c.Kind, c.Label, c.Site, c.Params)
			continue
		}
		if !confirmed {
			ev.Unconfirmed++
			oc := "no native outcome"
			if ok {
				oc = o.Outcome
			}
			fmt.Printf("INCONCLUSIVE harness=%s counterexample for %s %q did not reproduce natively (native outcome: %s)\n", c.FullHarness, c.Kind, c.Label, oc)
			aggs[c.FullHarness].incomplete = append(aggs[c.FullHarness].incomplete, "unconfirmed counterexample for "+c.Label)
			continue
		}
		// known finding?
		var kf *KnownFinding
		for i := range known {
			k := &known[i]
			if k.Status == "known" && k.Property == prop && k.Harness == c.FullHarness && k.Kind == c.Kind && k.Label == c.Label && strings.Contains(c.Site, k.SiteFn) {
				match := true
				for pk, pv := range k.Params {
					if cv, ok := c.Params[pk]; !ok || cv != pv {
						match = false
					}
				}
				if match {
					kf = k
					break
				}
			}
		}
		if kf != nil {
			key := kf.Harness + "|" + kf.Label + "|" + kf.SiteFn
			if !knownHit[key] {
				knownHit[key] = true
				fmt.Printf("KNOWN-FINDING: property=%s %s\n", prop, kf.What)
				ev.KnownHit = append(ev.KnownHit, kf.What)
			}
			continue
		}
		violations++
		vkey := c.FullHarness + "|" + c.Label
		vcount[vkey]++
		if vcount[vkey] > 4 {
			exit = 1
			continue // further counterexamples of the same obligation are only counted
		}
		path := filepath.Join(scratch, fmt.Sprintf("%s_%s.json", c.Harness, c.ID))
		cb, _ := json.MarshalIndent(c, "", " ")
		os.WriteFile(path, cb, 0644)
		fmt.Printf("VIOLATION property=%s replay=%s\n", prop, path)
		fmt.Printf("  harness=%s %s %q at %s params=%v native=%s\n", c.FullHarness, c.Kind, c.Label, c.Site, c.Params, o.Outcome)
		if len(confirmedSamples) < 5 {
			confirmedSamples = append(confirmedSamples, map[string]interface{}{"violation": c.Label, "harness": c.FullHarness, "site": c.Site, "stream": c.Stream})
		}
		exit = 1
	}

	// evidence
	names := make([]string, 0, len(aggs))
	for n := range aggs {
		names = append(names, n)
	}
	sort.Strings(names)
	funcs := map[string]bool{}
	for _, n := range names {
		a := aggs[n]
		var hc *HarnessCfg
		for i := range cfg.Harnesses {
			if cfg.Harnesses[i].Name == n {
				hc = &cfg.Harnesses[i]
			}
		}
		tc := hc.Quick
		if *tier == "thorough" && hc.Thorough != nil {
			tc = hc.Thorough
		}
		// vacuity
		for _, rl := range hc.RequireReach {
			if a.reach[rl] == 0 {
				a.incomplete = append(a.incomplete, "required marker not reachable: "+rl)
				fmt.Printf("INCONCLUSIVE harness=%s marker %q unreachable (vacuous)\n", n, rl)
			}
		}
		if mismatchH[n] {
			a.incomplete = append(a.incomplete, "translator mismatch")
		}
		p, _ := splitHarness(n)
		if msg, bad := nativeFailed[p]; bad {
			a.incomplete = append(a.incomplete, "native run failed: "+msg)
			fmt.Printf("INCONCLUSIVE harness=%s native replay/validation failed: %.300s\n", n, msg)
		}
		ev.States += a.states
		ev.Transitions += a.branches
		ev.Paths += a.paths
		ev.AssertChecked += a.checked
		ev.AssertHeld += a.held
		ev.AssertFailed += a.failed
		for f := range a.funcs {
			funcs[f] = true
		}
		ob := map[string]interface{}{
			"harness": n, "obligation": hc.Obligation, "jobs": a.jobs, "paths": a.paths,
			"bounds":            map[string]interface{}{"params": tc.Params, "unwind": orDefault(tc.Unwind, 64), "maxalloc": orDefault(tc.MaxAlloc, 16)},
			"assertions_held":   a.held, "assertions_failed_candidates": a.failed,
			"reach":             a.reach,
			"complete":          len(a.incomplete) == 0,
		}
		if len(a.incomplete) > 0 {
			ev.Incomplete = true
			if len(a.incomplete) > 12 {
				a.incomplete = append(a.incomplete[:12], fmt.Sprintf("... and %d more", len(a.incomplete)-12))
			}
			ob["incomplete_reasons"] = a.incomplete
		}
		wit := map[string]interface{}{}
		for lbl, rc := range a.wit {
			wit[lbl] = rc.Stream
			if len(wit) >= 3 {
				break
			}
		}
		ob["reach_witnesses"] = wit
		ev.Samples = append(ev.Samples, ob)
	}
	ev.Samples = append(ev.Samples, confirmedSamples...)
	ev.Validated = validated
	ev.Mismatches = mismatches
	ev.Violations = violations
	ev.Functions = funcHashes(prog, funcs)
	ev.LoadS, ev.ExploreS = loadS, exploreS
	if err := ev.write(evPath, time.Since(t0).Seconds()); err != nil {
		fmt.Println("cannot write evidence:", err)
		return 2
	}
	status := "held on everything explored"
	if ev.Incomplete {
		status += " (INCOMPLETE: see evidence)"
	}
	if exit == 1 {
		status = "VIOLATED"
	}
	fmt.Printf("%s %s tier=%s: %s; jobs=%d paths=%d asserts held=%d/%d queries=%v solver=%.1fs validated=%d wall=%.1fs\n",
		prop, "symgo", *tier, status, len(jobs), ev.Paths, ev.AssertHeld, ev.AssertChecked, ev.Queries, ev.SolverS, validated, time.Since(t0).Seconds())
	if exit == 0 && *strict && (ev.Incomplete || ev.Unconfirmed > 0) {
		return 3
	}
	return exit
}

func orDefault(v, d int) int {
	if v > 0 {
		return v
	}
	return d
}

func concreteTrace(prog *sym.Program, c replayCase) []string {
	conc := map[string]*big.Int{}
	for k, v := range c.Stream {
		if strings.HasPrefix(k, "param:") {
			continue
		}
		if strings.HasPrefix(v, "x:") {
			if b, err := hex.DecodeString(v[2:]); err == nil {
				conc[k] = new(big.Int).SetBytes(b)
			}
			continue
		}
		if bi, ok := new(big.Int).SetString(v, 10); ok {
			conc[k] = bi
		}
	}
	return sym.ConcreteRun(prog, c.FullHarness, c.Params, conc)
}

func funcHashes(prog *sym.Program, funcs map[string]bool) []map[string]string {
	var names []string
	for f := range funcs {
		if strings.Contains(f, "codenotary/immudb") && !strings.Contains(f, "verifrt") && !strings.Contains(f, "VerifH_") && !strings.Contains(f, "verif") {
			names = append(names, f)
		}
	}
	sort.Strings(names)
	var out []map[string]string
	for _, n := range names {
		src := prog.FuncSource(n)
		h := sha256.Sum256([]byte(src))
		out = append(out, map[string]string{"func": strings.ReplaceAll(n, "github.com/codenotary/immudb/", ""), "src_sha256": hex.EncodeToString(h[:8])})
	}
	return out
}

func replayCmd(repo, verif, path string) int {
	b, err := os.ReadFile(path)
	if err != nil {
		fmt.Println(err)
		return 2
	}
	var c replayCase
	if err := json.Unmarshal(b, &c); err != nil {
		fmt.Println(err)
		return 2
	}
	p, fn := splitHarness(c.FullHarness)
	scratch := filepath.Join(verif, "replay", "_single")
	os.RemoveAll(scratch)
	res, out, err := nativeRun(repo, verif, scratch, p, []string{fn}, []replayCase{c})
	if err != nil {
		fmt.Println("native run failed:", err)
		fmt.Println(out)
		return 2
	}
	o := res[c.ID]
	fmt.Printf("harness=%s outcome=%s expected=%s\ntrace=%v\n", c.FullHarness, o.Outcome, c.Expect, o.Trace)
	if (c.Kind == "panic" && strings.HasPrefix(o.Outcome, "panic:")) || o.Outcome == c.Expect {
		fmt.Printf("VIOLATION property=%s replay=%s\n", c.Property, path)
		return 1
	}
	return 0
}
