package main

func checkCmd(args []string) int { return 0 }
