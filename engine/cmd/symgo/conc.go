package main

import (
	"encoding/json"
	"flag"
	"fmt"
	"os"
	"strings"

	"symgo/sym"
)

// conc: run one recorded case in the executor's concrete mode and print the trace.
func concCmd(args []string) {
	fs := flag.NewFlagSet("conc", flag.ExitOnError)
	repo := fs.String("repo", "/repo", "")
	verif := fs.String("verif", "/verif", "")
	casef := fs.String("case", "", "replay case json")
	pkgs := fs.String("pkgs", "", "")
	fs.Parse(args)
	b, err := os.ReadFile(*casef)
	if err != nil {
		panic(err)
	}
	var c replayCase
	if err := json.Unmarshal(b, &c); err != nil {
		panic(err)
	}
	ov, _ := sym.Overlay(*repo, *verif)
	prog, err := sym.Load(*repo, ov, strings.Split(*pkgs, ",")...)
	if err != nil {
		panic(err)
	}
	for _, l := range concreteTrace(prog, c) {
		fmt.Println(l)
	}
}
