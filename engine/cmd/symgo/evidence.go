package main

import (
	"encoding/json"
	"os"
)

type evidence struct {
	prop, tier string
	seed       int
	cfg        *CheckCfg

	States, Transitions, Paths             int
	AssertChecked, AssertHeld, AssertFailed int
	Validated, Mismatches                  int
	Violations, Unconfirmed                int
	Merged                                 int
	Queries                                map[string]int
	SolverS, LoadS, ExploreS               float64
	Samples                                []interface{}
	Functions                              []map[string]string
	KnownHit                               []string
	Incomplete                             bool
	Notes                                  []string
}

func newEvidence(prop, tier string, seed int, cfg *CheckCfg) *evidence {
	return &evidence{prop: prop, tier: tier, seed: seed, cfg: cfg, Queries: map[string]int{"sat": 0, "unsat": 0, "unknown": 0}}
}

func (e *evidence) write(path string, wall float64) error {
	samples := e.Samples
	if len(samples) == 0 {
		samples = []interface{}{map[string]interface{}{"note": "no obligation was explored", "notes": e.Notes}}
	}
	st, tr := e.States, e.Transitions
	if st < 1 {
		st = 1
	}
	if tr < 1 {
		tr = 1
	}
	assumptions := append([]string{}, e.cfg.Assumptions...)
	for _, s := range e.cfg.Stubs {
		assumptions = append(assumptions, "stub: "+s)
	}
	for _, s := range e.cfg.Outside {
		assumptions = append(assumptions, "outside the claim: "+s)
	}
	doc := map[string]interface{}{
		"property_id": e.prop,
		"tier":        e.tier,
		"seed":        e.seed,
		"level":       "model_checking",
		"coverage": map[string]interface{}{
			"states":                        st,
			"transitions":                   tr,
			"traces_validated_against_impl": e.Validated,
			"samples":                       samples,
			"exhaustive":                    false,
			"explanation":                   "bounded symbolic execution of the real Go SSA; states = symbolic path states created, transitions = solver-decided branch points; each obligation holds for every value of its symbolic inputs within the listed bounds iff complete=true",
			"paths":                         e.Paths,
			"assertions_checked":            e.AssertChecked,
			"assertions_held":               e.AssertHeld,
			"assertion_counterexample_candidates": e.AssertFailed,
			"unconfirmed_counterexamples":   e.Unconfirmed,
			"translator_mismatches":         e.Mismatches,
			"merged_return_paths":           e.Merged,
			"queries":                       e.Queries,
			"solver_time_s":                 e.SolverS,
			"load_s":                        e.LoadS,
			"explore_s":                     e.ExploreS,
			"functions_encoded":             e.Functions,
			"known_findings_hit":            e.KnownHit,
			"incomplete":                    e.Incomplete,
			"notes":                         e.Notes,
		},
		"assumptions": assumptions,
		"wall_s":      wall,
		"violations":  e.Violations,
	}
	b, err := json.MarshalIndent(doc, "", " ")
	if err != nil {
		return err
	}
	return os.WriteFile(path, b, 0644)
}
