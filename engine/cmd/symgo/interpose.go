package main

import (
	"bytes"
	"fmt"
	"go/ast"
	"go/parser"
	"go/printer"
	"go/token"
	"os"
	"path/filepath"
	"regexp"
	"strings"
)

// Native interposition of harness stubs: verifrt.Stub("pkg.(*Recv).Method", fn) replaces the
// callee inside the symbolic executor; for native replay the callee's source file is overlaid
// with a copy in which the function is renamed F__real and a new F dispatches to the
// registered stub (never written to /repo).

var stubRe = regexp.MustCompile(`verifrt\.Stub\("([^"]+)"`)

type stubTarget struct {
	key    string // (*embedded/store.ImmuStore).readTx
	pkgRel string
	recv   string // "" for plain functions
	ptr    bool
	name   string
}

func parseStubKey(key string) (stubTarget, bool) {
	t := stubTarget{key: key}
	// ssa naming: (*pkg/path.Recv).Method | (pkg/path.Recv).Method | pkg/path.Func
	if strings.HasPrefix(key, "(") {
		j := strings.Index(key, ").")
		if j < 0 {
			return t, false
		}
		r := key[1:j]
		if strings.HasPrefix(r, "*") {
			t.ptr = true
			r = r[1:]
		}
		k := strings.LastIndex(r, ".")
		if k < 0 {
			return t, false
		}
		t.pkgRel, t.recv = r[:k], r[k+1:]
		t.name = key[j+2:]
		return t, true
	}
	i := strings.LastIndex(key, ".")
	if i < 0 {
		return t, false
	}
	t.pkgRel, t.name = key[:i], key[i+1:]
	return t, true
}

// collectStubs scans the harness sources for verifrt.Stub("...") keys.
func collectStubs(verif string) []stubTarget {
	seen := map[string]bool{}
	var out []stubTarget
	filepath.Walk(filepath.Join(verif, "harness"), func(p string, info os.FileInfo, err error) error {
		if err != nil || info.IsDir() || !strings.HasSuffix(p, ".go") {
			return nil
		}
		b, err := os.ReadFile(p)
		if err != nil {
			return nil
		}
		for _, m := range stubRe.FindAllStringSubmatch(string(b), -1) {
			if seen[m[1]] {
				continue
			}
			seen[m[1]] = true
			if t, ok := parseStubKey(m[1]); ok {
				out = append(out, t)
			}
		}
		return nil
	})
	return out
}

func exprString(fset *token.FileSet, e ast.Expr) string {
	var b bytes.Buffer
	printer.Fprint(&b, fset, e)
	return b.String()
}

// interposeOverlays writes rewritten copies of the source files that define stubbed functions
// and returns overlay entries (repo path -> scratch path).
func interposeOverlays(repo, verif, scratch string, onlyPkg string) (map[string]string, error) {
	targets := collectStubs(verif)
	byFile := map[string][]stubTarget{}
	fset := token.NewFileSet()
	files := map[string]*ast.File{}
	for _, t := range targets {
		if onlyPkg != "" && t.pkgRel != onlyPkg {
			// stubs of callees in other packages are interposed too (the test binary links them)
		}
		dir := filepath.Join(repo, t.pkgRel)
		ents, err := os.ReadDir(dir)
		if err != nil {
			continue
		}
		found := false
		for _, e := range ents {
			if !strings.HasSuffix(e.Name(), ".go") || strings.HasSuffix(e.Name(), "_test.go") {
				continue
			}
			path := filepath.Join(dir, e.Name())
			f, ok := files[path]
			if !ok {
				f, err = parser.ParseFile(fset, path, nil, parser.ParseComments)
				if err != nil {
					continue
				}
				files[path] = f
			}
			for _, d := range f.Decls {
				fd, ok := d.(*ast.FuncDecl)
				if !ok || fd.Name.Name != t.name || fd.Body == nil {
					continue
				}
				if t.recv == "" && fd.Recv != nil {
					continue
				}
				if t.recv != "" {
					if fd.Recv == nil || len(fd.Recv.List) != 1 {
						continue
					}
					rt := fd.Recv.List[0].Type
					isPtr := false
					if st, ok := rt.(*ast.StarExpr); ok {
						isPtr = true
						rt = st.X
					}
					id, ok := rt.(*ast.Ident)
					if !ok || id.Name != t.recv || isPtr != t.ptr {
						continue
					}
				}
				byFile[path] = append(byFile[path], t)
				found = true
			}
			if found {
				break
			}
		}
		if !found {
			// the target no longer exists in this tree (renamed or removed): harnesses that
			// stub it cannot replay (they report a mismatch), the others are unaffected
			fmt.Fprintf(os.Stderr, "interpose: stub target %s not found in %s (skipped)\n", t.key, dir)
		}
	}
	out := map[string]string{}
	for path, ts := range byFile {
		f := files[path]
		var wrappers bytes.Buffer
		for _, t := range ts {
			for _, d := range f.Decls {
				fd, ok := d.(*ast.FuncDecl)
				if !ok || fd.Name.Name != t.name || fd.Body == nil {
					continue
				}
				if (t.recv == "") != (fd.Recv == nil) {
					continue
				}
				// name all parameters
				var ptypes, pnames, callArgs []string
				n := 0
				recvName, recvType := "", ""
				if fd.Recv != nil {
					fld := fd.Recv.List[0]
					recvType = exprString(fset, fld.Type)
					if len(fld.Names) == 0 || fld.Names[0].Name == "_" {
						fld.Names = []*ast.Ident{ast.NewIdent("vrecv")}
					}
					recvName = fld.Names[0].Name
				}
				for _, fld := range fd.Type.Params.List {
					ts := exprString(fset, fld.Type)
					if len(fld.Names) == 0 {
						fld.Names = []*ast.Ident{ast.NewIdent(fmt.Sprintf("vp%d", n))}
					}
					for _, nm := range fld.Names {
						if nm.Name == "_" {
							nm.Name = fmt.Sprintf("vp%d", n)
						}
						n++
						ptypes = append(ptypes, ts)
						pnames = append(pnames, nm.Name+" "+ts)
						if strings.HasPrefix(ts, "...") {
							callArgs = append(callArgs, nm.Name+"...")
						} else {
							callArgs = append(callArgs, nm.Name)
						}
					}
				}
				res := ""
				hasRes := fd.Type.Results != nil && len(fd.Type.Results.List) > 0
				if hasRes {
					var rs []string
					for _, fld := range fd.Type.Results.List {
						ts := exprString(fset, fld.Type)
						k := len(fld.Names)
						if k == 0 {
							k = 1
						}
						for i := 0; i < k; i++ {
							rs = append(rs, ts)
						}
					}
					res = " (" + strings.Join(rs, ", ") + ")"
				}
				ret := ""
				if hasRes {
					ret = "return "
				}
				fnTypeParams := ptypes
				stubArgs := callArgs
				recvDecl := ""
				realCall := t.name + "__real(" + strings.Join(callArgs, ", ") + ")"
				if fd.Recv != nil {
					fnTypeParams = append([]string{recvType}, ptypes...)
					stubArgs = append([]string{recvName}, callArgs...)
					recvDecl = "(" + recvName + " " + recvType + ") "
					realCall = recvName + "." + realCall
				}
				fmt.Fprintf(&wrappers, "\nfunc %s%s(%s)%s {\n", recvDecl, t.name, strings.Join(pnames, ", "), res)
				fmt.Fprintf(&wrappers, "\tif vf := verifrt.Lookup(%q); vf != nil {\n", t.key)
				fmt.Fprintf(&wrappers, "\t\t%svf.(func(%s)%s)(%s)\n", ret, strings.Join(fnTypeParams, ", "), res, strings.Join(stubArgs, ", "))
				if !hasRes {
					fmt.Fprintf(&wrappers, "\t\treturn\n")
				}
				fmt.Fprintf(&wrappers, "\t}\n\t%s%s\n}\n", ret, realCall)
				fd.Name.Name = t.name + "__real"
			}
		}
		var src bytes.Buffer
		if err := printer.Fprint(&src, fset, f); err != nil {
			return nil, err
		}
		text := src.String()
		if !strings.Contains(text, `"github.com/codenotary/immudb/embedded/verifrt"`) {
			// add the import after the package clause
			idx := strings.Index(text, "\npackage ")
			if strings.HasPrefix(text, "package ") {
				idx = -1
			}
			end := strings.Index(text[idx+1:], "\n") + idx + 1
			text = text[:end+1] + "\nimport \"github.com/codenotary/immudb/embedded/verifrt\"\n" + text[end+1:]
		}
		text += wrappers.String()
		rel, _ := filepath.Rel(repo, path)
		dst := filepath.Join(scratch, "interpose_"+strings.ReplaceAll(rel, "/", "_"))
		if err := os.WriteFile(dst, []byte(text), 0644); err != nil {
			return nil, err
		}
		out[path] = dst
	}
	return out, nil
}
