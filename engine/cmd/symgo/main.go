package main

import (
	"encoding/json"
	"flag"
	"fmt"
	"os"
	"strconv"
	"strings"
	"time"

	"symgo/sym"
)

func main() {
	if len(os.Args) < 2 {
		fmt.Println("usage: symgo job|check ...")
		os.Exit(2)
	}
	switch os.Args[1] {
	case "job":
		jobCmd(os.Args[2:])
	case "check":
		os.Exit(checkCmd(os.Args[2:]))
	default:
		if f, ok := extraCmds[os.Args[1]]; ok {
			f(os.Args[2:])
			return
		}
		fmt.Println("unknown command")
		os.Exit(2)
	}
}

var extraCmds = map[string]func([]string){}

type kvFlag map[string]int

func (k kvFlag) String() string { return fmt.Sprint(map[string]int(k)) }
func (k kvFlag) Set(s string) error {
	i := strings.Index(s, "=")
	if i < 0 {
		return fmt.Errorf("want k=v")
	}
	v, err := strconv.Atoi(s[i+1:])
	if err != nil {
		return err
	}
	k[s[:i]] = v
	return nil
}

func jobCmd(args []string) {
	fs := flag.NewFlagSet("job", flag.ExitOnError)
	repo := fs.String("repo", "/repo", "")
	verif := fs.String("verif", "/verif", "")
	harness := fs.String("harness", "", "pkg.Func")
	pkgs := fs.String("pkgs", "", "comma separated package patterns")
	solver := fs.String("solver", "z3", "")
	debug := fs.Bool("debug", false, "")
	unwind := fs.Int("unwind", 64, "")
	maxalloc := fs.Int("maxalloc", 16, "")
	smtlog := fs.String("smtlog", "", "")
	hmode := fs.String("hashmode", "pair", "")
	params := kvFlag{}
	fs.Var(params, "p", "param k=v")
	fs.Parse(args)
	sym.HashAxiomMode = *hmode
	ov, err := sym.Overlay(*repo, *verif)
	if err != nil {
		panic(err)
	}
	t0 := time.Now()
	prog, err := sym.Load(*repo, ov, strings.Split(*pkgs, ",")...)
	if err != nil {
		fmt.Println("LOAD ERROR:", err)
		os.Exit(3)
	}
	fmt.Printf("loaded in %.1fs\n", time.Since(t0).Seconds())
	lim := sym.DefaultLimits()
	lim.Unwind = *unwind
	lim.MaxAlloc = *maxalloc
	ex, err := sym.NewExec(prog, *harness, params, lim, *solver)
	if err != nil {
		panic(err)
	}
	defer ex.Close()
	ex.Debug = *debug
	if *smtlog != "" {
		f, _ := os.Create(*smtlog)
		defer f.Close()
		ex.SetSolverLog(f)
	}
	t1 := time.Now()
	ex.RunHarness()
	fmt.Printf("explored in %.2fs\n", time.Since(t1).Seconds())
	b, _ := json.MarshalIndent(ex.Summary(), "", " ")
	fmt.Println(string(b))
}

func init() { extraCmds["conc"] = concCmd }
