package sym

import (
	"fmt"
	"go/types"
	"strings"

	"golang.org/x/tools/go/ssa"
)

const modPrefix = "github.com/codenotary/immudb/"

// Replaced marks a state whose continuation was taken over by other states.
const Replaced Status = 100

var defaultMerge = []string{}

// callCtx is what an intrinsic sees.
type callCtx struct {
	s    *State
	fr   *Frame
	args []Value
	pend *pending
	fn   *ssa.Function
	call *ssa.CallCommon
}

type intrinsic func(ex *Exec, c *callCtx) (Value, bool)

func fnKey(fn *ssa.Function) string {
	k := fn.String()
	return strings.ReplaceAll(k, modPrefix, "")
}

func (ex *Exec) call(s *State, fr *Frame, instr ssa.Instruction, c *ssa.CallCommon, dst ssa.Value, pend *pending) {
	args := make([]Value, 0, len(c.Args)+1)
	if c.IsInvoke() {
		recv, ok := ex.val(s, fr, c.Value).(Iface)
		if !ok {
			unsupported("invoke on %T", ex.val(s, fr, c.Value))
		}
		if recv.T == nil {
			s.end(Panicked, "nil interface method call "+c.Method.Name()+" at "+ex.where())
			s.site = ex.where()
			return
		}
		for _, a := range c.Args {
			args = append(args, ex.val(s, fr, a))
		}
		ex.invokeMethod(s, fr, recv, c.Method, args, dst, pend, c)
		return
	}
	for _, a := range c.Args {
		args = append(args, ex.val(s, fr, a))
	}
	switch callee := c.Value.(type) {
	case *ssa.Builtin:
		ex.builtin(s, fr, callee.Name(), args, c, dst, pend)
		return
	case *ssa.Function:
		ex.invoke(s, fr, callee, args, nil, dst, pend, c)
		return
	}
	cl, ok := ex.val(s, fr, c.Value).(*Closure)
	if !ok {
		unsupported("call of %T", ex.val(s, fr, c.Value))
	}
	if cl == nil {
		s.end(Panicked, "call of nil func at "+ex.where())
		s.site = ex.where()
		return
	}
	if cl.Builtin != nil {
		ex.builtin(s, fr, cl.Builtin.Name(), args, c, dst, pend)
		return
	}
	if cl.Fn == nil {
		if cl.Stub == "swap" {
			// element swap of the slice bound by the sort.Slice intrinsic
			if !ex.swapElems(s, cl.Bindings[0].(Slice), args[0].(*Term), args[1].(*Term), pend) {
				return
			}
			ex.finishCall(s, fr, dst, nil)
			return
		}
		// opaque function value: results are zero values
		ex.finishCall(s, fr, dst, ex.zeroResults(c.Signature()))
		return
	}
	ex.invoke(s, fr, cl.Fn, args, cl.Bindings, dst, pend, c)
}

// swapElems swaps x[i] and x[j] (indexes concretized).
func (ex *Exec) swapElems(s *State, x Slice, iT, jT *Term, pend *pending) bool {
	n := ex.sliceBound(s, x)
	i, ok := ex.concretize(s, iT, n, pend)
	if !ok {
		return false
	}
	j, ok := ex.concretize(s, jT, n, pend)
	if !ok {
		return false
	}
	pi := Ptr{Obj: x.Base.Obj, Path: extendPath(x.Base.Path, ex.elemPath(x.Off, ex.tt.BV(uint64(i), 64)))}
	pj := Ptr{Obj: x.Base.Obj, Path: extendPath(x.Base.Path, ex.elemPath(x.Off, ex.tt.BV(uint64(j), 64)))}
	vi, vj := ex.load(s, pi), ex.load(s, pj)
	ex.store(s, pi, vj)
	ex.store(s, pj, vi)
	return true
}

func (ex *Exec) zeroResults(sig *types.Signature) Value {
	switch sig.Results().Len() {
	case 0:
		return nil
	case 1:
		return ex.zero(sig.Results().At(0).Type())
	}
	return ex.zero(sig.Results())
}

func (ex *Exec) finishCall(s *State, fr *Frame, dst ssa.Value, rv Value) {
	if fr.inDefers {
		fr.inDefers = false
		return // stay on RunDefers
	}
	if dst != nil {
		ex.set(fr, dst, rv)
	}
	fr.ip++
}

func (ex *Exec) invokeMethod(s *State, fr *Frame, recv Iface, m *types.Func, args []Value, dst ssa.Value, pend *pending, c *ssa.CallCommon) {
	if recv.T == ex.prog.opaqueType {
		ex.finishCall(s, fr, dst, ex.opaqueResults(s, m.Type().(*types.Signature)))
		return
	}
	if recv.T == ex.prog.hasherType {
		rv, ok := ex.hasherMethod(s, recv, m.Name(), args, pend)
		if ok {
			ex.finishCall(s, fr, dst, rv)
		}
		return
	}
	fn := ex.prog.lookupMethod(recv.T, m)
	if fn == nil {
		unsupported("no method %s on %v", m.Name(), recv.T)
	}
	full := append([]Value{recv.V}, args...)
	ex.invoke(s, fr, fn, full, nil, dst, pend, c)
}

func (ex *Exec) invokeDeferred(s *State, fr *Frame, d deferred, pend *pending) {
	fr.inDefers = true
	if d.method != nil {
		recv := d.recv.(Iface)
		if recv.T == nil {
			s.end(Panicked, "nil interface method call (deferred) at "+ex.where())
			return
		}
		ex.invokeMethod(s, fr, recv, d.method, d.args, nil, pend, nil)
		return
	}
	cl, ok := d.fn.(*Closure)
	if !ok || cl == nil {
		s.end(Panicked, "deferred call of nil func at "+ex.where())
		return
	}
	if cl.Builtin != nil {
		ex.builtin(s, fr, cl.Builtin.Name(), d.args, nil, nil, pend)
		return
	}
	if cl.Fn == nil {
		fr.inDefers = false
		return
	}
	ex.invoke(s, fr, cl.Fn, d.args, cl.Bindings, nil, pend, nil)
}

// invoke calls fn with args (receiver first for methods).
func (ex *Exec) invoke(s *State, fr *Frame, fn *ssa.Function, args []Value, bindings []Value, dst ssa.Value, pend *pending, c *ssa.CallCommon) {
	key := fnKey(fn)
	if st, ok := s.stubs[key]; ok {
		cl := st.(*Closure)
		if cl.Fn != fn {
			fn, bindings = cl.Fn, cl.Bindings
			key = fnKey(fn)
		}
	}
	if h, ok := intrinsics[key]; ok {
		rv, ok := h(ex, &callCtx{s: s, fr: fr, args: args, pend: pend, fn: fn, call: c})
		if ok {
			ex.finishCall(s, fr, dst, rv)
		}
		return
	}
	if o := fn.Origin(); o != nil {
		if h, ok := intrinsics[fnKey(o)]; ok {
			rv, ok := h(ex, &callCtx{s: s, fr: fr, args: args, pend: pend, fn: fn, call: c})
			if ok {
				ex.finishCall(s, fr, dst, rv)
			}
			return
		}
	}
	if fn.Synthetic == "package initializer" {
		ex.finishCall(s, fr, dst, nil)
		return
	}
	if ex.inInit && key != "errors.New" && (fn.Pkg == nil || !strings.HasPrefix(fn.Pkg.Pkg.Path(), "github.com/codenotary/immudb")) {
		ex.finishCall(s, fr, dst, ex.opaqueResults(s, fn.Signature))
		return
	}
	if ex.skipPkg(fn) {
		ex.finishCall(s, fr, dst, ex.opaqueResults(s, fn.Signature))
		return
	}
	if len(fn.Blocks) == 0 {
		unsupported("no body: %s", key)
	}
	if len(s.frames) >= ex.lim.MaxDepth {
		s.end(UnwindFail, "call depth at "+key)
		return
	}
	if ex.merge[key] && !fr.inDefers && ex.Concrete == nil {
		ex.callMerged(s, fr, fn, args, bindings, dst, pend)
		return
	}
	nf := ex.newFrame(fn, args, bindings)
	nf.retTo = dst
	s.frames = append(s.frames, nf)
}

var skipPrefixes = []string{
	"github.com/prometheus/", "log.", "(*log.", "os/signal", "runtime.", "runtime/debug.", "(*runtime.",
	"github.com/rs/xid", "github.com/codenotary/immudb/embedded/appendable/fileutils.", "go.opentelemetry", "google.golang.org/grpc/grpclog",
}

func (ex *Exec) skipPkg(fn *ssa.Function) bool {
	k := fn.String()
	for _, p := range skipPrefixes {
		if strings.HasPrefix(k, p) || strings.HasPrefix(k, "(*"+p) || strings.HasPrefix(k, "("+p) {
			return true
		}
	}
	return false
}

// opaqueResults fabricates results for a skipped call: zero values, with opaque
// non-nil objects for pointer results so later nil checks do not panic.
func (ex *Exec) opaqueResults(s *State, sig *types.Signature) Value {
	mk := func(t types.Type) Value {
		if _, ok := t.Underlying().(*types.Pointer); ok {
			s.opaqueSeq++
			return Ptr{Obj: s.alloc(Agg{})}
		}
		if _, ok := t.Underlying().(*types.Interface); ok && !types.Identical(t, types.Universe.Lookup("error").Type()) {
			// an opaque non-nil implementation: its methods do nothing
			s.opaqueSeq++
			return Iface{T: ex.prog.opaqueType, V: Opaque{T: t, ID: s.opaqueSeq}}
		}
		return ex.zero(t)
	}
	switch sig.Results().Len() {
	case 0:
		return nil
	case 1:
		return mk(sig.Results().At(0).Type())
	}
	t := make(Tuple, sig.Results().Len())
	for i := range t {
		t[i] = mk(sig.Results().At(i).Type())
	}
	return t
}

// refsFresh reports whether v references an object allocated at or after base.
func refsFresh(v Value, base int) bool {
	switch x := v.(type) {
	case Ptr:
		return x.Obj >= base
	case Slice:
		return x.Base.Obj >= base
	case Agg:
		for _, e := range x {
			if refsFresh(e, base) {
				return true
			}
		}
	case Tuple:
		for _, e := range x {
			if refsFresh(e, base) {
				return true
			}
		}
	case Iface:
		return x.T != nil && refsFresh(x.V, base)
	case MapRef:
		return x.Obj >= base
	case ChanRef:
		return x.Obj >= base
	case *Closure:
		if x != nil {
			for _, e := range x.Bindings {
				if refsFresh(e, base) {
					return true
				}
			}
		}
	}
	return false
}

// callMerged runs fn on all its paths and joins the returning paths that had no
// effect on pre-existing objects (merge-on-return for effect-free calls).
func (ex *Exec) callMerged(s *State, fr *Frame, fn *ssa.Function, args, bindings []Value, dst ssa.Value, pend *pending) {
	child := s.clone(ex.newID())
	child.frames = []*Frame{ex.newFrame(fn, args, bindings)}
	child.mergeBase = child.nextObj + 1
	child.wroteOld = false
	child.retSet = false
	basePC, baseIn, baseEv := len(s.pc), len(s.inputs), len(s.events)
	saved := ex.curInstr
	fin := ex.explore(child, true)
	ex.curInstr = saved

	resume := func(f *State, rv Value, pc []*Term, keepHeap bool) *State {
		ns := s.clone(ex.newID())
		if keepHeap {
			ns.heap = f.heap
			ns.nextObj = f.nextObj
			ns.globals = f.globals
			ns.pcSet = f.pcSet
		}
		ns.pc = pc
		ns.inputs, ns.events, ns.seq = f.inputs, f.events, f.seq
		ns.steps = f.steps
		ns.mergeBase, ns.wroteOld = s.mergeBase, s.wroteOld
		nfr := ns.top()
		if dst != nil {
			ex.set(nfr, dst, rv)
		}
		nfr.ip++
		return ns
	}

	type group struct {
		val    Value
		conds  []*Term
		hashes []HashApp
		axioms []*Term
		first  *State
		n      int
	}
	var groups []*group
	for _, f := range fin {
		if f.wroteOld || len(f.inputs) != baseIn || len(f.events) != baseEv || refsFresh(f.ret, child.mergeBase) {
			ns := resume(f, f.ret, f.pc, true)
			ns.hashes = f.hashes
			if f.wroteOld && s.mergeBase > 0 {
				ns.wroteOld = true
			}
			pend.forks = append(pend.forks, ns)
			continue
		}
		cond := ex.tt.And(f.pc[basePC:]...)
		placed := false
		for _, g := range groups {
			if mv, ok := ex.tryMerge(cond, f.ret, g.val); ok {
				g.val = mv
				g.conds = append(g.conds, cond)
				g.hashes = append(g.hashes, f.hashes[len(s.hashes):]...)
				g.n++
				placed = true
				break
			}
		}
		if !placed {
			groups = append(groups, &group{val: f.ret, conds: []*Term{cond}, hashes: append([]HashApp(nil), f.hashes[len(s.hashes):]...), first: f, n: 1})
		}
	}
	for _, g := range groups {
		if g.n > 1 {
			ex.Stats.Merged += g.n
		}
		ns := resume(g.first, g.val, nil, false)
		ns.pc = append([]*Term(nil), s.pc...)
		ns.hashes = append([]HashApp(nil), s.hashes...)
		seen := map[int]bool{}
		for _, h := range s.hashes {
			seen[h.App.ID] = true
		}
		for _, h := range g.hashes {
			if !seen[h.App.ID] {
				seen[h.App.ID] = true
				ex.addHashApp(ns, h)
			}
		}
		ns.addPC(ex.tt.Or(g.conds...))
		ns.steps = s.steps
		pend.forks = append(pend.forks, ns)
	}
	s.status = Replaced
}

func (ex *Exec) builtin(s *State, fr *Frame, name string, args []Value, c *ssa.CallCommon, dst ssa.Value, pend *pending) {
	tt := ex.tt
	var rv Value
	switch name {
	case "len":
		switch x := args[0].(type) {
		case Slice:
			rv = x.Len
		case Str:
			rv = tt.BV(uint64(len(x.B)), 64)
		case MapRef:
			if x.Obj == 0 {
				rv = tt.BV(0, 64)
			} else {
				rv = tt.BV(uint64(len(s.heap[x.Obj].(*MapVal).Keys)), 64)
			}
		case Agg:
			rv = tt.BV(uint64(len(x)), 64)
		case Ptr:
			n := c.Args[0].Type().Underlying().(*types.Pointer).Elem().Underlying().(*types.Array).Len()
			rv = tt.BV(uint64(n), 64)
		case ChanRef:
			if x.Obj == 0 {
				rv = tt.BV(0, 64)
			} else {
				rv = tt.BV(uint64(len(s.heap[x.Obj].(*ChanVal).Q)), 64)
			}
		default:
			unsupported("len of %T", x)
		}
	case "cap":
		switch x := args[0].(type) {
		case Slice:
			rv = x.Cap
		case Agg:
			rv = tt.BV(uint64(len(x)), 64)
		case Ptr:
			n := c.Args[0].Type().Underlying().(*types.Pointer).Elem().Underlying().(*types.Array).Len()
			rv = tt.BV(uint64(n), 64)
		default:
			unsupported("cap of %T", x)
		}
	case "append":
		v, ok := ex.appendOp(s, args[0].(Slice), args[1], c, pend)
		if !ok {
			return
		}
		rv = v
	case "copy":
		v, ok := ex.copyOp(s, args[0].(Slice), args[1], pend)
		if !ok {
			return
		}
		rv = v
	case "delete":
		if !ex.mapDelete(s, args[0].(MapRef), args[1], pend) {
			return
		}
	case "close":
		ch := args[0].(ChanRef)
		if ch.Obj == 0 {
			s.end(Panicked, "close of nil channel at "+ex.where())
			return
		}
		cv := s.heap[ch.Obj].(*ChanVal)
		if cv.Closed {
			s.end(Panicked, "close of closed channel at "+ex.where())
			s.site = ex.where()
			return
		}
		s.heap[ch.Obj] = &ChanVal{Q: cv.Q, Closed: true}
	case "print", "println":
	case "recover":
		rv = Iface{}
	case "ssa:wrapnilchk":
		p := args[0].(Ptr)
		if p.Obj == 0 {
			s.end(Panicked, "nil pointer dereference (method value) at "+ex.where())
			s.site = ex.where()
			return
		}
		rv = p
	case "min", "max":
		acc := args[0].(*Term)
		uns := isUnsigned(c.Args[0].Type())
		for _, a := range args[1:] {
			y := a.(*Term)
			var lt *Term
			if uns {
				lt = tt.Cmp(OpULt, y, acc)
			} else {
				lt = tt.Cmp(OpSLt, y, acc)
			}
			if name == "max" {
				lt = tt.Not(tt.Or(lt, tt.Eq(y, acc)))
				acc = tt.Ite(lt, y, acc)
			} else {
				acc = tt.Ite(lt, y, acc)
			}
		}
		rv = acc
	case "clear":
		switch x := args[0].(type) {
		case MapRef:
			if x.Obj != 0 {
				s.heap[x.Obj] = &MapVal{}
			}
		default:
			unsupported("clear of %T", x)
		}
	default:
		unsupported("builtin %s", name)
	}
	ex.finishCall(s, fr, dst, rv)
}

func (ex *Exec) appendOp(s *State, dstS Slice, src Value, c *ssa.CallCommon, pend *pending) (Value, bool) {
	tt := ex.tt
	var add []Value
	switch x := src.(type) {
	case Str:
		for _, b := range x.B {
			add = append(add, b)
		}
	case Slice:
		n, ok := ex.concretize(s, x.Len, ex.sliceBound(s, x), pend)
		if !ok {
			return nil, false
		}
		if n > 0 {
			arr := ex.backing(s, x)
			for k := 0; k < n; k++ {
				add = append(add, ex.elemValAt(arr, x.Off, k))
			}
		}
	default:
		unsupported("append of %T", src)
	}
	n0, ok := ex.concretize(s, dstS.Len, ex.sliceBound(s, dstS), pend)
	if !ok {
		return nil, false
	}
	if len(add) == 0 {
		return dstS, true
	}
	newLen := n0 + len(add)
	fits := tt.Cmp(OpULe, tt.BV(uint64(newLen), 64), dstS.Cap)
	if dstS.Base.Obj != 0 && ex.decide(s, fits, pend) {
		for k, v := range add {
			p := Ptr{Obj: dstS.Base.Obj, Path: extendPath(dstS.Base.Path, ex.elemPath(dstS.Off, tt.BV(uint64(n0+k), 64)))}
			ex.store(s, p, v)
		}
		return Slice{Base: dstS.Base, Off: dstS.Off, Len: tt.BV(uint64(newLen), 64), Cap: dstS.Cap}, true
	}
	newCap := newLen
	if dstS.Cap.IsConst() && 2*int(dstS.Cap.U64()) > newCap {
		newCap = 2 * int(dstS.Cap.U64())
	}
	var elemT types.Type
	if c != nil {
		elemT = c.Args[0].Type().Underlying().(*types.Slice).Elem()
	}
	arr := make(Agg, newCap)
	if n0 > 0 {
		old := ex.backing(s, dstS)
		for k := 0; k < n0; k++ {
			arr[k] = ex.elemValAt(old, dstS.Off, k)
		}
	}
	copy(arr[n0:], add)
	for k := newLen; k < newCap; k++ {
		if elemT != nil {
			arr[k] = ex.zero(elemT)
		} else {
			arr[k] = ex.zeroLike(add[0])
		}
	}
	obj := s.alloc(arr)
	return Slice{Base: Ptr{Obj: obj}, Off: tt.BV(0, 64), Len: tt.BV(uint64(newLen), 64), Cap: tt.BV(uint64(newCap), 64)}, true
}

func (ex *Exec) zeroLike(v Value) Value {
	switch x := v.(type) {
	case *Term:
		if x.W == 0 {
			return ex.tt.False
		}
		return ex.tt.BV(0, x.W)
	case Agg:
		out := make(Agg, len(x))
		for i := range x {
			out[i] = ex.zeroLike(x[i])
		}
		return out
	case Ptr:
		return Ptr{}
	case Slice:
		z := ex.tt.BV(0, 64)
		return Slice{Off: z, Len: z, Cap: z}
	case Str:
		return Str{}
	case Iface:
		return Iface{}
	case MapRef:
		return MapRef{}
	case *Closure:
		return (*Closure)(nil)
	}
	unsupported("zeroLike %T", v)
	return nil
}

func (ex *Exec) copyOp(s *State, dst Slice, src Value, pend *pending) (Value, bool) {
	tt := ex.tt
	var srcLen *Term
	var srcAt func(k int) Value
	var sb int
	switch x := src.(type) {
	case Str:
		srcLen = tt.BV(uint64(len(x.B)), 64)
		sb = len(x.B)
		srcAt = func(k int) Value { return x.B[k] }
	case Slice:
		srcLen = x.Len
		sb = ex.sliceBound(s, x)
		if sb > 0 {
			arr := ex.backing(s, x)
			// snapshot source elements first (memmove semantics)
			snap := make([]Value, sb)
			for k := 0; k < sb; k++ {
				snap[k] = ex.elemValAt(arr, x.Off, k)
			}
			srcAt = func(k int) Value { return snap[k] }
		}
	default:
		unsupported("copy from %T", src)
	}
	db := ex.sliceBound(s, dst)
	b := db
	if sb < b {
		b = sb
	}
	n := tt.Ite(tt.Cmp(OpULt, dst.Len, srcLen), dst.Len, srcLen)
	if b == 0 {
		return n, true
	}
	darr := ex.backing(s, dst)
	for k := 0; k < b; k++ {
		c := tt.Cmp(OpULt, tt.BV(uint64(k), 64), n)
		if c.IsFalse() {
			break
		}
		p := Ptr{Obj: dst.Base.Obj, Path: extendPath(dst.Base.Path, ex.elemPath(dst.Off, tt.BV(uint64(k), 64)))}
		nv := srcAt(k)
		if !c.IsTrue() {
			nv = ex.mergeVal(c, nv, ex.elemValAt(darr, dst.Off, k))
		}
		ex.store(s, p, nv)
	}
	return n, true
}

// ---- maps ----

func (ex *Exec) mapFind(s *State, mv *MapVal, key Value, pend *pending) int {
	for i, k := range mv.Keys {
		if ex.decide(s, ex.valueEq(s, k, key), pend) {
			return i
		}
	}
	return -1
}

func (ex *Exec) lookup(s *State, fr *Frame, x *ssa.Lookup, pend *pending) {
	switch m := ex.val(s, fr, x.X).(type) {
	case Str:
		idx := ex.toInt64(ex.val(s, fr, x.Index).(*Term), x.Index.Type())
		if !ex.guard(s, ex.tt.Cmp(OpULt, idx, ex.tt.BV(uint64(len(m.B)), 64)), "index out of range", pend) {
			return
		}
		ex.set(fr, x, ex.strIndex(m, idx))
	case MapRef:
		vt := x.X.Type().Underlying().(*types.Map).Elem()
		var res Value
		found := false
		if m.Obj != 0 {
			mv := s.heap[m.Obj].(*MapVal)
			i := ex.mapFind(s, mv, ex.val(s, fr, x.Index), pend)
			if i >= 0 {
				res = mv.Vals[i]
				found = true
			}
		}
		if !found {
			res = ex.zero(vt)
		}
		if x.CommaOk {
			ex.set(fr, x, Tuple{res, ex.tt.Bool(found)})
		} else {
			ex.set(fr, x, res)
		}
	default:
		unsupported("lookup on %T", m)
	}
	fr.ip++
}

func (ex *Exec) mapUpdate(s *State, fr *Frame, x *ssa.MapUpdate, pend *pending) {
	m := ex.val(s, fr, x.Map).(MapRef)
	if m.Obj == 0 {
		s.end(Panicked, "assignment to entry in nil map at "+ex.where())
		s.site = ex.where()
		return
	}
	mv := s.heap[m.Obj].(*MapVal)
	key := ex.val(s, fr, x.Key)
	val := ex.val(s, fr, x.Value)
	i := ex.mapFind(s, mv, key, pend)
	nm := &MapVal{Keys: append([]Value(nil), mv.Keys...), Vals: append([]Value(nil), mv.Vals...)}
	if i >= 0 {
		nm.Vals[i] = val
	} else {
		nm.Keys = append(nm.Keys, key)
		nm.Vals = append(nm.Vals, val)
	}
	if m.Obj < s.mergeBase {
		s.wroteOld = true
	}
	s.heap[m.Obj] = nm
	fr.ip++
}

func (ex *Exec) mapDelete(s *State, m MapRef, key Value, pend *pending) bool {
	if m.Obj == 0 {
		return true
	}
	mv := s.heap[m.Obj].(*MapVal)
	i := ex.mapFind(s, mv, key, pend)
	if i < 0 {
		return true
	}
	nm := &MapVal{}
	for j := range mv.Keys {
		if j != i {
			nm.Keys = append(nm.Keys, mv.Keys[j])
			nm.Vals = append(nm.Vals, mv.Vals[j])
		}
	}
	if m.Obj < s.mergeBase {
		s.wroteOld = true
	}
	s.heap[m.Obj] = nm
	return true
}

func (ex *Exec) rangeOp(s *State, fr *Frame, x *ssa.Range, pend *pending) {
	switch m := ex.val(s, fr, x.X).(type) {
	case MapRef:
		it := &MapIter{}
		if m.Obj != 0 {
			mv := s.heap[m.Obj].(*MapVal)
			it.Keys, it.Vals = mv.Keys, mv.Vals
		}
		ex.set(fr, x, it)
	case Str:
		st := m
		it := &MapIter{Str: &st}
		ex.set(fr, x, it)
	default:
		unsupported("range over %T", m)
	}
	fr.ip++
}

func (ex *Exec) nextOp(s *State, fr *Frame, x *ssa.Next) {
	it := ex.get(fr, x.Iter).(*MapIter)
	tt := ex.tt
	if x.IsString {
		str, ok := strConcrete(*it.Str)
		if !ok {
			unsupported("range over symbolic string")
		}
		if it.Pos >= len(str) {
			ex.set(fr, x, Tuple{tt.False, tt.BV(0, 64), tt.BV(0, 32)})
		} else {
			var r rune
			var size int
			for i, rr := range str[it.Pos:] {
				if i == 0 {
					r = rr
					continue
				}
				size = i
				break
			}
			if size == 0 {
				size = len(str) - it.Pos
			}
			ex.set(fr, x, Tuple{tt.True, tt.BV(uint64(it.Pos), 64), tt.BV(uint64(uint32(r)), 32)})
			ni := *it
			ni.Pos += size
			ex.set(fr, x.Iter, &ni)
		}
		fr.ip++
		return
	}
	mt := x.Iter.(*ssa.Range).X.Type().Underlying().(*types.Map)
	if it.Pos >= len(it.Keys) {
		ex.set(fr, x, Tuple{tt.False, ex.zero(mt.Key()), ex.zero(mt.Elem())})
	} else {
		ex.set(fr, x, Tuple{tt.True, it.Keys[it.Pos], it.Vals[it.Pos]})
		ni := *it
		ni.Pos++
		ex.set(fr, x.Iter, &ni)
	}
	fr.ip++
}

func init() {
	_ = fmt.Sprint
}
