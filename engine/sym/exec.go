package sym

import (
	"fmt"
	"os"
	"go/constant"
	"go/token"
	"go/types"
	"math"
	"math/big"
	"runtime/debug"
	"sort"
	"strings"
	"time"

	"golang.org/x/tools/go/ssa"
)

// Limits are the bounds of one job (checked, never assumed).
type Limits struct {
	Unwind    int // max visits of one block per activation
	MaxDepth  int // call depth
	MaxPaths  int
	MaxSteps  int // instructions per path
	MaxAlloc  int // cells for make() with symbolic size
	TimeoutMs int // per solver query (assertions, models)
	FeasMs    int // per feasibility query
	Deadline  time.Time
}

func DefaultLimits() Limits {
	return Limits{Unwind: 64, MaxDepth: 64, MaxPaths: 20000, MaxSteps: 2000000, MaxAlloc: 16, TimeoutMs: 20000, FeasMs: 4000}
}

// Finding is a candidate violation (assertion failure or panic) with a model.
type Finding struct {
	Kind    string // assert | panic
	Label   string
	Site    string
	Stream  map[string]interface{} // concrete nondet stream (lifted)
	Params  map[string]int
	Harness string
	Trace   []string
}

// Witness is a reachability witness for a Reach marker.
type Witness struct {
	Label  string
	Stream map[string]interface{}
	Trace  []string
}

// Stats of one job.
type Stats struct {
	Paths, States, Branches, Steps int
	PathsDone, PathsDead, PathsSkipped int
	AssertChecked, AssertHeld, AssertFailed, AssertUnknown int
	Unsupported   map[string]int
	UnwindFails   int
	BoundFails    int
	UnknownFeas   int
	Merged        int
	Portfolio     int
	Funcs         map[string]bool
	ReachCount    map[string]int
	AssertLabels  map[string]int
	Budget        bool // path/time budget exhausted
}

// Exec runs one job (one harness with one parameter assignment), single-threaded.
type Exec struct {
	prog    *Program
	tt      *TermTable
	sol     *Solver
	lim     Limits
	params  map[string]int
	harness string

	stateSeq int
	regIdx   map[*ssa.Function]map[ssa.Value]int
	regCnt   map[*ssa.Function]int

	Stats     Stats
	Findings  []Finding
	Witnesses map[string]*Witness
	merge     map[string]bool
	Concrete  map[string]*big.Int // concrete mode: nondet values by key
	ConcTrace []string            // concrete mode: trace of assert/reach outcomes
	AllowPanic bool
	AllocLimit int // bytes; 0 = unchecked
	inInit    bool
	Debug     bool
	curInstr  ssa.Instruction
	lastBTrace []string
}

func NewExec(p *Program, harness string, params map[string]int, lim Limits, solverKind string) (*Exec, error) {
	tt := NewTermTable()
	sol, err := NewSolver(solverKind, tt, lim.TimeoutMs)
	if err != nil {
		return nil, err
	}
	sol.FeasMs = lim.FeasMs
	ex := &Exec{prog: p, tt: tt, sol: sol, lim: lim, params: params, harness: harness,
		regIdx: map[*ssa.Function]map[ssa.Value]int{}, regCnt: map[*ssa.Function]int{},
		Witnesses: map[string]*Witness{}, merge: map[string]bool{}}
	ex.Stats.Unsupported = map[string]int{}
	ex.Stats.Funcs = map[string]bool{}
	ex.Stats.ReachCount = map[string]int{}
	ex.Stats.AssertLabels = map[string]int{}
	for _, m := range defaultMerge {
		ex.merge[m] = true
	}
	return ex, nil
}

func (ex *Exec) Close() { ex.sol.Close() }

func (ex *Exec) newID() int { ex.stateSeq++; ex.Stats.States++; return ex.stateSeq }

func (ex *Exec) regs(fn *ssa.Function) map[ssa.Value]int {
	if m, ok := ex.regIdx[fn]; ok {
		return m
	}
	m := map[ssa.Value]int{}
	n := 0
	for _, p := range fn.Params {
		m[p] = n
		n++
	}
	for _, fv := range fn.FreeVars {
		m[fv] = n
		n++
	}
	for _, b := range fn.Blocks {
		for _, in := range b.Instrs {
			if v, ok := in.(ssa.Value); ok {
				m[v] = n
				n++
			}
		}
	}
	ex.regIdx[fn] = m
	ex.regCnt[fn] = n
	return m
}

func (ex *Exec) newFrame(fn *ssa.Function, args []Value, bindings []Value) *Frame {
	if len(fn.Blocks) == 0 {
		panic(fmt.Sprintf("no body for %s", fn))
	}
	m := ex.regs(fn)
	fr := &Frame{fn: fn, regs: make([]Value, ex.regCnt[fn]), block: fn.Blocks[0], visits: map[int]int{}}
	for i, p := range fn.Params {
		if i < len(args) {
			fr.regs[m[p]] = args[i]
		}
	}
	for i, fv := range fn.FreeVars {
		fr.regs[m[fv]] = bindings[i]
	}
	ex.Stats.Funcs[fn.String()] = true
	return fr
}

// RunHarness explores the harness function from the initial state.
func (ex *Exec) RunHarness() {
	fn := ex.prog.Harness(ex.harness)
	if fn == nil {
		panic("harness not found: " + ex.harness)
	}
	s := ex.prog.initState(ex)
	s.frames = []*Frame{ex.newFrame(fn, nil, nil)}
	ex.explore(s, false)
}

// explore runs init and all its forks to completion. With collect, states whose
// frame stack empties (the callee of a merge region returned) are returned instead
// of being finished.
func (ex *Exec) explore(init *State, collect bool) []*State {
	stack := []*State{init}
	var finished []*State
	for len(stack) > 0 {
		s := stack[len(stack)-1]
		stack = stack[:len(stack)-1]
		if ex.overBudget() {
			ex.Stats.Budget = true
			break
		}
		forks := ex.runPath(s)
		stack = append(stack, forks...)
		if s.status == Replaced {
			continue
		}
		if s.status == Running && len(s.frames) == 0 {
			if collect {
				finished = append(finished, s)
				continue
			}
			s.status = Done
		}
		ex.finishPath(s)
	}
	return finished
}

func (ex *Exec) overBudget() bool {
	if ex.Stats.Paths >= ex.lim.MaxPaths {
		return true
	}
	if !ex.lim.Deadline.IsZero() && time.Now().After(ex.lim.Deadline) {
		return true
	}
	return false
}

func (ex *Exec) finishPath(s *State) {
	ex.Stats.Paths++
	if BTrace {
		ex.lastBTrace = s.btrace
	}
	switch s.status {
	case Done:
		ex.Stats.PathsDone++
	case Dead:
		ex.Stats.PathsDead++
	case Skipped:
		ex.Stats.PathsSkipped++
	case Unsupported:
		ex.Stats.Unsupported[s.why]++
	case UnwindFail:
		ex.Stats.UnwindFails++
		ex.Stats.Unsupported["unwind:"+s.why]++
	case BoundFail:
		ex.Stats.BoundFails++
		ex.Stats.Unsupported["bound:"+s.why]++
	case Panicked:
		if !ex.AllowPanic {
			ex.recordFinding(s, "panic", "panic", s.why, nil)
		}
	}
	if ex.Debug {
		fmt.Printf("  path %d: status=%d why=%s steps=%d pc=%d\n", s.id, s.status, s.why, s.steps, len(s.pc))
		if ex.Stats.Paths%500 == 3 {
			for i, t := range s.pc {
				fmt.Printf("      pc[%d] %.160s\n", i, t.String())
			}
		}
	}
}

// pending holds forks created during the current instruction.
type pending struct{ forks []*State }

var cur *pending

// runPath executes s until it terminates, leaves the region or forks. Forked states
// are returned for the caller's work list.
func (ex *Exec) runPath(s *State) (forks []*State) {
	pend := &pending{}
	defer func() {
		forks = pend.forks
		if r := recover(); r != nil {
			if u, ok := r.(unsupportedErr); ok {
				s.end(Unsupported, string(u))
				return
			}
			if _, ok := r.(unmergeable); ok {
				s.end(Unsupported, "unmergeable symbolic-index load at "+ex.where())
				return
			}
			msg := fmt.Sprint(r)
			if ex.Debug {
				fmt.Printf("engine panic: %v\n%s\n", r, debug.Stack())
			}
			s.end(Unsupported, "engine: "+msg+" at "+ex.where())
		}
	}()
	for s.status == Running {
		if len(s.frames) == 0 {
			return
		}
		fr := s.top()
		if fr.ip >= len(fr.block.Instrs) {
			panic("fell off block")
		}
		in := fr.block.Instrs[fr.ip]
		ex.curInstr = in
		s.steps++
		ex.Stats.Steps++
		if s.steps > ex.lim.MaxSteps {
			s.end(UnwindFail, "step budget")
			return
		}
		ex.step(s, fr, in, pend)
	}
	return
}

func (ex *Exec) where() string {
	if ex.curInstr == nil {
		return "?"
	}
	return ex.posOf(ex.curInstr)
}

func (ex *Exec) posOf(in ssa.Instruction) string {
	fn := in.Parent()
	pos := in.Pos()
	if pos == token.NoPos {
		// nearest instruction with a position in the same block
		b := in.Block()
		for _, x := range b.Instrs {
			if x.Pos() != token.NoPos {
				pos = x.Pos()
				if x == in {
					break
				}
			}
		}
	}
	p := ex.prog.Fset.Position(pos)
	file := p.Filename
	if i := strings.LastIndex(file, "/"); i >= 0 {
		file = file[i+1:]
	}
	return fmt.Sprintf("%s@%s:%d", fn.String(), file, p.Line)
}

var stdSizes = types.SizesFor("gc", "amd64")

// BTrace records the branch trace of every path (debugging aid).
var BTrace = os.Getenv("SYMGO_BTRACE") != ""

type unsupportedErr string

func unsupported(format string, a ...interface{}) {
	panic(unsupportedErr(fmt.Sprintf(format, a...)))
}

// decide resolves a boolean term on the current path, forking when both sides are
// feasible. The fork re-executes the current instruction (the decision is then found
// in its pcSet), so decide must be called before the instruction's side effects.
func (ex *Exec) decide(s *State, c *Term, pend *pending) bool {
	return ex.decideHint(s, c, pend, false)
}

func (ex *Exec) decideHint(s *State, c *Term, pend *pending, expectTrue bool) bool {
	if c.IsConst() {
		return c.IsTrue()
	}
	if c.Op == OpNot {
		return !ex.decideHint(s, c.Args[0], pend, false)
	}
	if v, ok := s.pcSet[c.ID]; ok {
		return v
	}
	ex.Stats.Branches++
	nc := ex.tt.Not(c)
	var canT, canF bool
	if expectTrue {
		rf := ex.sol.Check(s.pc, nc)
		if rf == Unknown {
			ex.Stats.UnknownFeas++
		}
		canF = rf != Unsat
		if !canF {
			canT = true
		} else {
			rt := ex.sol.Check(s.pc, c)
			if rt == Unknown {
				ex.Stats.UnknownFeas++
			}
			canT = rt != Unsat
		}
	} else {
		rt := ex.sol.Check(s.pc, c)
		if rt == Unknown {
			ex.Stats.UnknownFeas++
		}
		canT = rt != Unsat
		if !canT {
			canF = true
		} else {
			rf := ex.sol.Check(s.pc, nc)
			if rf == Unknown {
				ex.Stats.UnknownFeas++
			}
			canF = rf != Unsat
		}
	}
	switch {
	case canT && canF:
		f := s.clone(ex.newID())
		f.addPC(nc)
		pend.forks = append(pend.forks, f)
		s.addPC(c)
		return true
	case canT:
		s.addPC(c)
		return true
	case canF:
		s.addPC(nc)
		return false
	}
	// both unsat: pc itself infeasible
	s.end(Dead, "infeasible")
	panic(deadPath{})
}

type deadPath struct{}

// guard requires ok on the current path; the failing side becomes a panic path.
func (ex *Exec) guard(s *State, ok *Term, what string, pend *pending) bool {
	if ok.IsTrue() {
		return true
	}
	if ex.decideHint(s, ok, pend, true) {
		return true
	}
	s.end(Panicked, what+" at "+ex.where())
	s.site = ex.where()
	return false
}

// concretize forks over the feasible values of t (at most max+1 of them, 0..max).
func (ex *Exec) concretize(s *State, t *Term, max int, pend *pending) (int, bool) {
	if t.IsConst() {
		return int(t.U64()), true
	}
	for v := 0; v <= max; v++ {
		c := ex.tt.Eq(t, ex.tt.BV(uint64(v), t.W))
		if known, ok := s.pcSet[c.ID]; ok {
			if known {
				return v, true
			}
			continue
		}
		if ex.decide(s, c, pend) {
			return v, true
		}
	}
	s.end(BoundFail, fmt.Sprintf("value exceeds %d at %s", max, ex.where()))
	return 0, false
}

// concretizeAny pins t to one of its feasible values (taken from a model) and forks
// the alternative t != v, which re-executes the current instruction.
func (ex *Exec) concretizeAny(s *State, t *Term, pend *pending) (uint64, bool) {
	if t.IsConst() {
		return t.U64(), true
	}
	if v, ok := s.pinned[t.ID]; ok {
		return v, true
	}
	r, m := ex.sol.CheckModel(s.pc, nil, []*Term{t})
	if r != Sat {
		if r == Unknown {
			ex.Stats.UnknownFeas++
			s.end(Unsupported, "concretize: solver unknown at "+ex.where())
		} else {
			s.end(Dead, "infeasible")
		}
		return 0, false
	}
	v := m[t.ID].Uint64()
	c := ex.tt.Eq(t, ex.tt.BV(v, t.W))
	// fork the other side if feasible
	nc := ex.tt.Not(c)
	ex.Stats.Branches++
	if rf := ex.sol.Check(s.pc, nc); rf != Unsat {
		if rf == Unknown {
			ex.Stats.UnknownFeas++
		}
		f := s.clone(ex.newID())
		f.addPC(nc)
		pend.forks = append(pend.forks, f)
	}
	s.addPC(c)
	if s.pinned == nil {
		s.pinned = map[int]uint64{}
	}
	s.pinned[t.ID] = v
	return v, true
}

// scalarish values can be merged with ite; anything holding references cannot in general.
func scalarish(v Value) bool {
	switch x := v.(type) {
	case *Term:
		return true
	case Agg:
		for _, e := range x {
			if !scalarish(e) {
				return false
			}
		}
		return true
	}
	return false
}

// symPosLimit: symbolic element positions over backing arrays longer than this are
// case-split into concrete positions instead of being encoded as ite chains.
const symPosLimit = 24

func (ex *Exec) get(fr *Frame, v ssa.Value) Value {
	switch x := v.(type) {
	case *ssa.Const:
		return ex.constVal(x)
	case *ssa.Function:
		return &Closure{Fn: x}
	case *ssa.Builtin:
		return &Closure{Builtin: x}
	case *ssa.Global:
		panic("global needs state")
	}
	i, ok := ex.regs(fr.fn)[v]
	if !ok {
		panic(fmt.Sprintf("no register for %s in %s", v.Name(), fr.fn))
	}
	return fr.regs[i]
}

func (ex *Exec) val(s *State, fr *Frame, v ssa.Value) Value {
	if g, ok := v.(*ssa.Global); ok {
		return Ptr{Obj: ex.globalObj(s, g)}
	}
	return ex.get(fr, v)
}

func (ex *Exec) set(fr *Frame, v ssa.Value, x Value) {
	fr.regs[ex.regs(fr.fn)[v]] = x
}

func (ex *Exec) constVal(c *ssa.Const) Value {
	t := c.Type()
	if c.Value == nil {
		return ex.zero(t)
	}
	if tp, ok := t.(*types.TypeParam); ok {
		_ = tp
		unsupported("const of type parameter")
	}
	switch u := t.Underlying().(type) {
	case *types.Basic:
		switch {
		case u.Info()&types.IsBoolean != 0:
			return ex.tt.Bool(constant.BoolVal(c.Value))
		case u.Info()&types.IsString != 0:
			return ex.strConst(constant.StringVal(c.Value))
		case u.Info()&types.IsInteger != 0:
			w := intWidth(t)
			iv := constant.ToInt(c.Value)
			bi, ok := new(big.Int).SetString(iv.ExactString(), 10)
			if !ok {
				panic("bad int const " + iv.ExactString())
			}
			return ex.tt.BVBig(bi, w)
		case u.Info()&types.IsFloat != 0:
			f, _ := constant.Float64Val(c.Value)
			if intWidth(t) == 32 {
				return ex.tt.BV(uint64(math.Float32bits(float32(f))), 32)
			}
			return ex.tt.BV(math.Float64bits(f), 64)
		}
	}
	unsupported("constant of type %v", t)
	return nil
}

func (ex *Exec) strConst(sv string) Str {
	b := make([]*Term, len(sv))
	for i := 0; i < len(sv); i++ {
		b[i] = ex.tt.BV(uint64(sv[i]), 8)
	}
	return Str{B: b}
}

func strConcrete(s Str) (string, bool) {
	bs := make([]byte, len(s.B))
	for i, t := range s.B {
		if !t.IsConst() {
			return "", false
		}
		bs[i] = byte(t.U64())
	}
	return string(bs), true
}

func (ex *Exec) globalObj(s *State, g *ssa.Global) int {
	if id, ok := s.globals[g]; ok {
		return id
	}
	elem := g.Type().(*types.Pointer).Elem()
	var v Value
	if types.Identical(elem, types.Universe.Lookup("error").Type()) && g.Pkg != nil {
		// un-initialised sentinel error of a library package: opaque distinct error
		v = ex.newErrorString(s, g.Pkg.Pkg.Path()+"."+g.Name())
	} else {
		v = ex.zero(elem)
	}
	id := s.alloc(v)
	s.globals[g] = id
	return id
}

func (ex *Exec) newErrorString(s *State, msg string) Value {
	et := ex.prog.errorStringType()
	obj := s.alloc(Agg{ex.strConst(msg)})
	return Iface{T: types.NewPointer(et), V: Ptr{Obj: obj}}
}

// step executes one instruction.
func (ex *Exec) step(s *State, fr *Frame, in ssa.Instruction, pend *pending) {
	defer func() {
		if r := recover(); r != nil {
			if _, ok := r.(deadPath); ok {
				return
			}
			panic(r)
		}
	}()
	switch x := in.(type) {
	case *ssa.DebugRef:
		fr.ip++
	case *ssa.Alloc:
		obj := s.alloc(ex.zero(x.Type().(*types.Pointer).Elem()))
		ex.set(fr, x, Ptr{Obj: obj})
		fr.ip++
	case *ssa.Phi:
		// evaluate all phis of the block simultaneously
		idx := -1
		for i, p := range fr.block.Preds {
			if p == fr.prev {
				idx = i
				break
			}
		}
		if idx < 0 {
			panic("phi: no predecessor")
		}
		var phis []*ssa.Phi
		var vals []Value
		for _, i2 := range fr.block.Instrs[fr.ip:] {
			p, ok := i2.(*ssa.Phi)
			if !ok {
				break
			}
			phis = append(phis, p)
			vals = append(vals, ex.val(s, fr, p.Edges[idx]))
		}
		for i, p := range phis {
			ex.set(fr, p, vals[i])
		}
		fr.ip += len(phis)
	case *ssa.BinOp:
		v, ok := ex.binop(s, x.Op, x.X.Type(), ex.val(s, fr, x.X), ex.val(s, fr, x.Y), x.Y.Type(), pend)
		if !ok {
			return
		}
		ex.set(fr, x, v)
		fr.ip++
	case *ssa.UnOp:
		ex.unop(s, fr, x, pend)
	case *ssa.Convert:
		v, ok := ex.convert(s, ex.val(s, fr, x.X), x.X.Type(), x.Type(), pend)
		if !ok {
			return
		}
		ex.set(fr, x, v)
		fr.ip++
	case *ssa.ChangeType:
		ex.set(fr, x, ex.val(s, fr, x.X))
		fr.ip++
	case *ssa.ChangeInterface:
		ex.set(fr, x, ex.val(s, fr, x.X))
		fr.ip++
	case *ssa.MultiConvert:
		v, ok := ex.convert(s, ex.val(s, fr, x.X), x.X.Type(), x.Type(), pend)
		if !ok {
			return
		}
		ex.set(fr, x, v)
		fr.ip++
	case *ssa.SliceToArrayPointer:
		sl := ex.val(s, fr, x.X).(Slice)
		n := x.Type().(*types.Pointer).Elem().Underlying().(*types.Array).Len()
		if !ex.guard(s, ex.tt.Cmp(OpULe, ex.tt.BV(uint64(n), 64), sl.Len), "slice to array pointer: length", pend) {
			return
		}
		if !sl.Off.IsConst() || sl.Off.U64() != 0 {
			unsupported("SliceToArrayPointer with non-zero offset")
		}
		ex.set(fr, x, sl.Base)
		fr.ip++
	case *ssa.MakeInterface:
		ex.set(fr, x, Iface{T: x.X.Type(), V: ex.val(s, fr, x.X)})
		fr.ip++
	case *ssa.MakeClosure:
		b := make([]Value, len(x.Bindings))
		for i, bv := range x.Bindings {
			b[i] = ex.val(s, fr, bv)
		}
		ex.set(fr, x, &Closure{Fn: x.Fn.(*ssa.Function), Bindings: b})
		fr.ip++
	case *ssa.MakeMap:
		obj := s.alloc(&MapVal{})
		ex.set(fr, x, MapRef{Obj: obj})
		fr.ip++
	case *ssa.MakeChan:
		obj := s.alloc(&ChanVal{})
		ex.set(fr, x, ChanRef{Obj: obj})
		fr.ip++
	case *ssa.MakeSlice:
		ex.makeSlice(s, fr, x, pend)
	case *ssa.FieldAddr:
		p := ex.val(s, fr, x.X).(Ptr)
		if p.Obj == 0 {
			s.end(Panicked, "nil pointer dereference (field) at "+ex.where())
			s.site = ex.where()
			return
		}
		ex.set(fr, x, Ptr{Obj: p.Obj, Path: extendPath(p.Path, PathElem{Idx: x.Field})})
		fr.ip++
	case *ssa.Field:
		agg := ex.val(s, fr, x.X).(Agg)
		ex.set(fr, x, agg[x.Field])
		fr.ip++
	case *ssa.IndexAddr:
		ex.indexAddr(s, fr, x, pend)
	case *ssa.Index:
		ex.index(s, fr, x, pend)
	case *ssa.Lookup:
		ex.lookup(s, fr, x, pend)
	case *ssa.Slice:
		ex.sliceOp(s, fr, x, pend)
	case *ssa.Store:
		p := ex.val(s, fr, x.Addr).(Ptr)
		if p.Obj == 0 {
			s.end(Panicked, "nil pointer dereference (store) at "+ex.where())
			s.site = ex.where()
			return
		}
		ex.store(s, p, ex.val(s, fr, x.Val))
		fr.ip++
	case *ssa.MapUpdate:
		ex.mapUpdate(s, fr, x, pend)
	case *ssa.TypeAssert:
		ex.typeAssert(s, fr, x)
	case *ssa.Extract:
		t := ex.val(s, fr, x.Tuple).(Tuple)
		ex.set(fr, x, t[x.Index])
		fr.ip++
	case *ssa.Range:
		ex.rangeOp(s, fr, x, pend)
	case *ssa.Next:
		ex.nextOp(s, fr, x)
	case *ssa.Call:
		ex.call(s, fr, x, x.Common(), x, pend)
	case *ssa.Go:
		ex.call(s, fr, x, x.Common(), nil, pend)
	case *ssa.Defer:
		ex.deferOp(s, fr, x)
	case *ssa.RunDefers:
		if n := len(fr.defers); n > 0 {
			d := fr.defers[n-1]
			fr.defers = fr.defers[:n-1]
			ex.invokeDeferred(s, fr, d, pend)
			return
		}
		fr.ip++
	case *ssa.Send:
		ch := ex.val(s, fr, x.Chan).(ChanRef)
		if ch.Obj == 0 {
			unsupported("send on nil channel")
		}
		cv := s.heap[ch.Obj].(*ChanVal)
		ncv := &ChanVal{Q: append(append([]Value(nil), cv.Q...), ex.val(s, fr, x.X)), Closed: cv.Closed}
		s.heap[ch.Obj] = ncv
		fr.ip++
	case *ssa.Select:
		ex.selectOp(s, fr, x)
	case *ssa.If:
		c := ex.val(s, fr, x.Cond).(*Term)
		tk := ex.decide(s, c, pend)
		if BTrace {
			s.btrace = append(s.btrace, fmt.Sprintf("%s %v", ex.posOf(in), tk))
		}
		ex.jump(s, fr, tk)
	case *ssa.Jump:
		ex.jump(s, fr, true)
	case *ssa.Return:
		ex.ret(s, fr, x, pend)
	case *ssa.Panic:
		v := ex.val(s, fr, x.X)
		msg := "explicit panic"
		if ifc, ok := v.(Iface); ok && ifc.T != nil {
			if st, ok := ifc.V.(Str); ok {
				if cs, ok := strConcrete(st); ok {
					msg += ": " + cs
				}
			}
		}
		s.end(Panicked, msg+" at "+ex.where())
		s.site = ex.where()
	default:
		unsupported("instruction %T", in)
	}
}

func (ex *Exec) jump(s *State, fr *Frame, takeFirst bool) {
	var nb *ssa.BasicBlock
	if takeFirst {
		nb = fr.block.Succs[0]
	} else {
		nb = fr.block.Succs[1]
	}
	fr.prev = fr.block
	fr.block = nb
	fr.ip = 0
	fr.visits[nb.Index]++
	if fr.visits[nb.Index] > ex.lim.Unwind {
		s.end(UnwindFail, fmt.Sprintf("block %d of %s visited > %d times", nb.Index, fr.fn, ex.lim.Unwind))
	}
}

func (ex *Exec) ret(s *State, fr *Frame, x *ssa.Return, pend *pending) {
	var rv Value
	switch len(x.Results) {
	case 0:
	case 1:
		rv = ex.val(s, fr, x.Results[0])
	default:
		t := make(Tuple, len(x.Results))
		for i, r := range x.Results {
			t[i] = ex.val(s, fr, r)
		}
		rv = t
	}
	ex.popFrame(s, rv)
}

func (ex *Exec) popFrame(s *State, rv Value) {
	fr := s.top()
	s.frames = s.frames[:len(s.frames)-1]
	if len(s.frames) == 0 {
		s.ret = rv
		s.retSet = true
		return
	}
	caller := s.top()
	if fr.retTo != nil {
		ex.set(caller, fr.retTo, rv)
	}
	if caller.inDefers {
		// returning from a deferred call: stay on the RunDefers instruction
		caller.inDefers = false
		return
	}
	s.ret = rv
	s.retSet = true
	caller.ip++
}

func (ex *Exec) makeSlice(s *State, fr *Frame, x *ssa.MakeSlice, pend *pending) {
	ln := ex.val(s, fr, x.Len).(*Term)
	cp := ex.val(s, fr, x.Cap).(*Term)
	ln = ex.toInt64(ln, x.Len.Type())
	cp = ex.toInt64(cp, x.Cap.Type())
	elem := x.Type().Underlying().(*types.Slice).Elem()
	var n int
	if cp.IsConst() {
		if cp.S64() < 0 || cp.S64() > 1<<20 {
			if cp.S64() < 0 {
				s.end(Panicked, "makeslice: cap out of range at "+ex.where())
				s.site = ex.where()
				return
			}
			s.end(BoundFail, "makeslice: huge constant cap at "+ex.where())
			return
		}
		n = int(cp.U64())
		if !ex.guard(s, ex.tt.Cmp(OpULe, ln, cp), "makeslice: len out of range", pend) {
			return
		}
	} else {
		// symbolic capacity: panic side (negative) then bound
		if !ex.guard(s, ex.tt.Cmp(OpSLe, ex.tt.BV(0, 64), cp), "makeslice: len out of range", pend) {
			return
		}
		if ex.AllocLimit > 0 {
			// input-controlled allocation: may it exceed the harness' memory budget?
			esz := uint64(stdSizes.Sizeof(elem))
			if esz == 0 {
				esz = 1
			}
			lim := ex.tt.BV(uint64(ex.AllocLimit)/esz, 64)
			over := ex.tt.And(ex.tt.Cmp(OpULt, lim, cp), ex.tt.Cmp(OpULe, cp, ex.tt.BV((256<<20)/esz, 64)))
			key := "alloc@" + ex.where()
			if !s.reachSeen[key] {
				s.reachSeen[key] = true
				want := ex.wantTerms(s)
				if r, model := ex.sol.CheckModel(s.pc, []*Term{over}, want); r == Sat {
					ex.recordFinding(s, "alloc", "allocation exceeds limit", ex.where(), model)
				}
			}
		}
		within := ex.tt.Cmp(OpULe, cp, ex.tt.BV(uint64(ex.lim.MaxAlloc), 64))
		if !ex.decideHint(s, within, pend, true) {
			s.end(BoundFail, fmt.Sprintf("make size may exceed MAXALLOC=%d at %s", ex.lim.MaxAlloc, ex.where()))
			return
		}
		if !ex.guard(s, ex.tt.Cmp(OpULe, ln, cp), "makeslice: len out of range", pend) {
			return
		}
		n = ex.lim.MaxAlloc
	}
	arr := make(Agg, n)
	if n > 0 {
		z := ex.zero(elem)
		for i := range arr {
			arr[i] = z
		}
	}
	obj := s.alloc(arr)
	ex.set(fr, x, Slice{Base: Ptr{Obj: obj}, Off: ex.tt.BV(0, 64), Len: ln, Cap: cp})
	fr.ip++
}

func (ex *Exec) toInt64(t *Term, typ types.Type) *Term {
	if t.W == 64 {
		return t
	}
	if isUnsigned(typ) {
		return ex.tt.ZExt(t, 64)
	}
	return ex.tt.SExt(t, 64)
}

func (ex *Exec) elemPath(off, idx *Term) PathElem {
	pos := ex.tt.Bin(OpAdd, off, idx)
	if pos.IsConst() {
		return PathElem{Idx: int(pos.U64())}
	}
	return PathElem{Sym: pos}
}

// elemPathC is elemPath that case-splits the position when the backing array is large.
func (ex *Exec) elemPathC(s *State, base Ptr, off, idx *Term, pend *pending) (PathElem, bool) {
	pos := ex.tt.Bin(OpAdd, off, idx)
	if pos.IsConst() {
		return PathElem{Idx: int(pos.U64())}, true
	}
	if arr, ok := ex.load(s, base).(Agg); ok && (len(arr) > symPosLimit || (len(arr) > 0 && !scalarish(arr[0]))) {
		v, ok := ex.concretizeAny(s, pos, pend)
		if !ok {
			return PathElem{}, false
		}
		return PathElem{Idx: int(v)}, true
	}
	return PathElem{Sym: pos}, true
}

func (ex *Exec) indexAddr(s *State, fr *Frame, x *ssa.IndexAddr, pend *pending) {
	idx := ex.toInt64(ex.val(s, fr, x.Index).(*Term), x.Index.Type())
	switch b := ex.val(s, fr, x.X).(type) {
	case Slice:
		if !ex.guard(s, ex.tt.Cmp(OpULt, idx, b.Len), "index out of range", pend) {
			return
		}
		pe, ok := ex.elemPathC(s, b.Base, b.Off, idx, pend)
		if !ok {
			return
		}
		ex.set(fr, x, Ptr{Obj: b.Base.Obj, Path: extendPath(b.Base.Path, pe)})
	case Ptr:
		if b.Obj == 0 {
			s.end(Panicked, "nil pointer dereference (index) at "+ex.where())
			s.site = ex.where()
			return
		}
		n := x.X.Type().Underlying().(*types.Pointer).Elem().Underlying().(*types.Array).Len()
		if !ex.guard(s, ex.tt.Cmp(OpULt, idx, ex.tt.BV(uint64(n), 64)), "index out of range", pend) {
			return
		}
		pe, ok := ex.elemPathC(s, b, ex.tt.BV(0, 64), idx, pend)
		if !ok {
			return
		}
		ex.set(fr, x, Ptr{Obj: b.Obj, Path: extendPath(b.Path, pe)})
	default:
		panic(fmt.Sprintf("indexAddr on %T", b))
	}
	fr.ip++
}

func (ex *Exec) index(s *State, fr *Frame, x *ssa.Index, pend *pending) {
	idx := ex.toInt64(ex.val(s, fr, x.Index).(*Term), x.Index.Type())
	switch b := ex.val(s, fr, x.X).(type) {
	case Agg:
		if !ex.guard(s, ex.tt.Cmp(OpULt, idx, ex.tt.BV(uint64(len(b)), 64)), "index out of range", pend) {
			return
		}
		ex.set(fr, x, ex.navigate(b, []PathElem{ex.elemPath(ex.tt.BV(0, 64), idx)}))
	case Str:
		if !ex.guard(s, ex.tt.Cmp(OpULt, idx, ex.tt.BV(uint64(len(b.B)), 64)), "index out of range", pend) {
			return
		}
		ex.set(fr, x, ex.strIndex(b, idx))
	default:
		panic(fmt.Sprintf("index on %T", b))
	}
	fr.ip++
}

func (ex *Exec) strIndex(b Str, idx *Term) *Term {
	if idx.IsConst() {
		return b.B[idx.U64()]
	}
	var res *Term
	for k := len(b.B) - 1; k >= 0; k-- {
		if res == nil {
			res = b.B[k]
			continue
		}
		res = ex.tt.Ite(ex.tt.Eq(idx, ex.tt.BV(uint64(k), 64)), b.B[k], res)
	}
	return res
}

func (ex *Exec) sliceOp(s *State, fr *Frame, x *ssa.Slice, pend *pending) {
	tt := ex.tt
	geti := func(v ssa.Value) *Term {
		if v == nil {
			return nil
		}
		return ex.toInt64(ex.val(s, fr, v).(*Term), v.Type())
	}
	lo, hi, mx := geti(x.Low), geti(x.High), geti(x.Max)
	if lo == nil {
		lo = tt.BV(0, 64)
	}
	switch b := ex.val(s, fr, x.X).(type) {
	case Slice:
		if hi == nil {
			hi = b.Len
		}
		capv := b.Cap
		if mx != nil {
			if !ex.guard(s, tt.Cmp(OpULe, mx, b.Cap), "slice bounds out of range (max)", pend) {
				return
			}
			capv = mx
		}
		if !ex.guard(s, tt.Cmp(OpULe, hi, capv), "slice bounds out of range (high)", pend) {
			return
		}
		if !ex.guard(s, tt.Cmp(OpULe, lo, hi), "slice bounds out of range (low)", pend) {
			return
		}
		noff := tt.Bin(OpAdd, b.Off, lo)
		if !noff.IsConst() && b.Base.Obj != 0 {
			if arr, ok := ex.load(s, b.Base).(Agg); ok && len(arr) > symPosLimit {
				v, ok := ex.concretizeAny(s, noff, pend)
				if !ok {
					return
				}
				noff = tt.BV(v, 64)
			}
		}
		ns := Slice{Base: b.Base, Off: noff, Len: tt.Bin(OpSub, hi, lo), Cap: tt.Bin(OpSub, capv, lo)}
		ex.set(fr, x, ns)
	case Ptr:
		if b.Obj == 0 {
			s.end(Panicked, "nil pointer dereference (slice) at "+ex.where())
			s.site = ex.where()
			return
		}
		n := uint64(x.X.Type().Underlying().(*types.Pointer).Elem().Underlying().(*types.Array).Len())
		capv := tt.BV(n, 64)
		if hi == nil {
			hi = capv
		}
		if mx != nil {
			if !ex.guard(s, tt.Cmp(OpULe, mx, capv), "slice bounds out of range (max)", pend) {
				return
			}
			capv = mx
		}
		if !ex.guard(s, tt.Cmp(OpULe, hi, capv), "slice bounds out of range (high)", pend) {
			return
		}
		if !ex.guard(s, tt.Cmp(OpULe, lo, hi), "slice bounds out of range (low)", pend) {
			return
		}
		ex.set(fr, x, Slice{Base: b, Off: lo, Len: tt.Bin(OpSub, hi, lo), Cap: tt.Bin(OpSub, capv, lo)})
	case Str:
		n := len(b.B)
		if hi == nil {
			hi = tt.BV(uint64(n), 64)
		}
		if !ex.guard(s, tt.Cmp(OpULe, hi, tt.BV(uint64(n), 64)), "slice bounds out of range (string high)", pend) {
			return
		}
		if !ex.guard(s, tt.Cmp(OpULe, lo, hi), "slice bounds out of range (string low)", pend) {
			return
		}
		l, ok := ex.concretize(s, lo, n, pend)
		if !ok {
			return
		}
		h, ok := ex.concretize(s, hi, n, pend)
		if !ok {
			return
		}
		ex.set(fr, x, Str{B: b.B[l:h]})
	default:
		panic(fmt.Sprintf("slice of %T", b))
	}
	fr.ip++
}

func (ex *Exec) typeAssert(s *State, fr *Frame, x *ssa.TypeAssert) {
	v := ex.val(s, fr, x.X).(Iface)
	ok := false
	var res Value
	if v.T != nil {
		if types.IsInterface(x.AssertedType) {
			it := x.AssertedType.Underlying().(*types.Interface)
			ok = types.Implements(v.T, it)
			res = v
		} else {
			ok = types.Identical(v.T, x.AssertedType)
			res = v.V
		}
	}
	if x.CommaOk {
		if !ok {
			res = ex.zero(x.AssertedType)
		}
		ex.set(fr, x, Tuple{res, ex.tt.Bool(ok)})
		fr.ip++
		return
	}
	if !ok {
		s.end(Panicked, fmt.Sprintf("interface conversion: %v is not %v at %s", v.T, x.AssertedType, ex.where()))
		s.site = ex.where()
		return
	}
	ex.set(fr, x, res)
	fr.ip++
}

func (ex *Exec) deferOp(s *State, fr *Frame, x *ssa.Defer) {
	c := x.Common()
	d := deferred{}
	for _, a := range c.Args {
		d.args = append(d.args, ex.val(s, fr, a))
	}
	if c.IsInvoke() {
		d.recv = ex.val(s, fr, c.Value)
		d.method = c.Method
	} else {
		d.fn = ex.val(s, fr, c.Value)
	}
	fr.defers = append(fr.defers, d)
	fr.ip++
}

func (ex *Exec) selectOp(s *State, fr *Frame, x *ssa.Select) {
	// Only receive states with data / closed channels are supported, first ready wins;
	// with a default (non-blocking) and nothing ready, default is taken.
	for i, st := range x.States {
		ch := ex.val(s, fr, st.Chan).(ChanRef)
		if ch.Obj == 0 {
			continue
		}
		cv := s.heap[ch.Obj].(*ChanVal)
		if st.Dir == types.RecvOnly && (len(cv.Q) > 0 || cv.Closed) {
			res := Tuple{ex.tt.BV(uint64(i), 64), ex.tt.Bool(len(cv.Q) > 0)}
			for j, st2 := range x.States {
				if st2.Dir != types.RecvOnly {
					continue
				}
				et := st2.Chan.Type().Underlying().(*types.Chan).Elem()
				if j == i && len(cv.Q) > 0 {
					res = append(res, cv.Q[0])
					s.heap[ch.Obj] = &ChanVal{Q: cv.Q[1:], Closed: cv.Closed}
				} else {
					res = append(res, ex.zero(et))
				}
			}
			ex.set(fr, x, res)
			fr.ip++
			return
		}
		if st.Dir == types.SendOnly {
			ncv := &ChanVal{Q: append(append([]Value(nil), cv.Q...), ex.val(s, fr, st.Send)), Closed: cv.Closed}
			s.heap[ch.Obj] = ncv
			res := Tuple{ex.tt.BV(uint64(i), 64), ex.tt.False}
			for _, st2 := range x.States {
				if st2.Dir == types.RecvOnly {
					res = append(res, ex.zero(st2.Chan.Type().Underlying().(*types.Chan).Elem()))
				}
			}
			ex.set(fr, x, res)
			fr.ip++
			return
		}
	}
	if !x.Blocking {
		res := Tuple{ex.tt.BVBig(big.NewInt(-1), 64), ex.tt.False}
		for _, st2 := range x.States {
			if st2.Dir == types.RecvOnly {
				res = append(res, ex.zero(st2.Chan.Type().Underlying().(*types.Chan).Elem()))
			}
		}
		ex.set(fr, x, res)
		fr.ip++
		return
	}
	unsupported("blocking select with nothing ready")
}

// sortedKeys is a helper for deterministic reports.
func sortedKeys(m map[string]int) []string {
	var ks []string
	for k := range m {
		ks = append(ks, k)
	}
	sort.Strings(ks)
	return ks
}
