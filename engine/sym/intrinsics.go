package sym

import (
	"crypto/sha256"
	"fmt"
	"go/types"
	"math/big"
	"math/bits"
	"path/filepath"
	"regexp"
	"strings"

	"golang.org/x/tools/go/ssa"
)

const rt = "embedded/verifrt."

var intrinsics map[string]intrinsic

func init() {
	intrinsics = map[string]intrinsic{
		rt + "U64":         func(ex *Exec, c *callCtx) (Value, bool) { return ex.nondet(c, "u64", 64), true },
		rt + "I64":         func(ex *Exec, c *callCtx) (Value, bool) { return ex.nondet(c, "i64", 64), true },
		rt + "Int":         func(ex *Exec, c *callCtx) (Value, bool) { return ex.nondet(c, "int", 64), true },
		rt + "U32":         func(ex *Exec, c *callCtx) (Value, bool) { return ex.nondet(c, "u32", 32), true },
		rt + "U16":         func(ex *Exec, c *callCtx) (Value, bool) { return ex.nondet(c, "u16", 16), true },
		rt + "Byte":        func(ex *Exec, c *callCtx) (Value, bool) { return ex.nondet(c, "byte", 8), true },
		rt + "Bool":        func(ex *Exec, c *callCtx) (Value, bool) { return ex.nondet(c, "bool", 0), true },
		rt + "Bytes":       inBytes,
		rt + "BytesUpTo":   inBytesUpTo,
		rt + "Digest":      inDigest,
		rt + "Digests":     func(ex *Exec, c *callCtx) (Value, bool) { return inDigests(ex, c, false) },
		rt + "DigestsUpTo": func(ex *Exec, c *callCtx) (Value, bool) { return inDigests(ex, c, true) },
		rt + "Assume":      inAssume,
		rt + "Assert":      inAssert,
		rt + "Reach":       inReach,
		rt + "Event":       inEvent,
		rt + "Param":       inParam,
		rt + "Skip":        func(ex *Exec, c *callCtx) (Value, bool) { c.s.end(Skipped, "skip"); return nil, false },
		rt + "Stub":        inStub,
		rt + "Merge":       inMerge,
		rt + "Symbolic":    func(ex *Exec, c *callCtx) (Value, bool) { return ex.tt.True, true },
		rt + "AllocLimit": func(ex *Exec, c *callCtx) (Value, bool) {
			ex.AllocLimit = int(c.args[0].(*Term).U64())
			return nil, true
		},
		rt + "AllowPanic": func(ex *Exec, c *callCtx) (Value, bool) { ex.AllowPanic = true; return nil, true },

		"crypto/sha256.Sum256": inSum256,
		"crypto/sha256.New":    inSha256New,

		"bytes.Equal":   inBytesEqual,
		"bytes.Compare": inBytesCompare,

		"(encoding/binary.bigEndian).Uint16":       func(ex *Exec, c *callCtx) (Value, bool) { return ex.beGet(c, 2) },
		"(encoding/binary.bigEndian).Uint32":       func(ex *Exec, c *callCtx) (Value, bool) { return ex.beGet(c, 4) },
		"(encoding/binary.bigEndian).Uint64":       func(ex *Exec, c *callCtx) (Value, bool) { return ex.beGet(c, 8) },
		"(encoding/binary.bigEndian).PutUint16":    func(ex *Exec, c *callCtx) (Value, bool) { return ex.bePut(c, 2) },
		"(encoding/binary.bigEndian).PutUint32":    func(ex *Exec, c *callCtx) (Value, bool) { return ex.bePut(c, 4) },
		"(encoding/binary.bigEndian).PutUint64":    func(ex *Exec, c *callCtx) (Value, bool) { return ex.bePut(c, 8) },
		"(encoding/binary.littleEndian).Uint16":    func(ex *Exec, c *callCtx) (Value, bool) { return ex.leGet(c, 2) },
		"(encoding/binary.littleEndian).Uint32":    func(ex *Exec, c *callCtx) (Value, bool) { return ex.leGet(c, 4) },
		"(encoding/binary.littleEndian).Uint64":    func(ex *Exec, c *callCtx) (Value, bool) { return ex.leGet(c, 8) },
		"(encoding/binary.littleEndian).PutUint32": func(ex *Exec, c *callCtx) (Value, bool) { return ex.lePut(c, 4) },
		"(encoding/binary.littleEndian).PutUint64": func(ex *Exec, c *callCtx) (Value, bool) { return ex.lePut(c, 8) },

		"math.Float64bits":     func(ex *Exec, c *callCtx) (Value, bool) { return c.args[0], true },
		"math.Float64frombits": func(ex *Exec, c *callCtx) (Value, bool) { return c.args[0], true },
		"math.Float32bits":     func(ex *Exec, c *callCtx) (Value, bool) { return c.args[0], true },
		"math.Float32frombits": func(ex *Exec, c *callCtx) (Value, bool) { return c.args[0], true },
		"math.IsNaN": func(ex *Exec, c *callCtx) (Value, bool) {
			return ex.tt.FP(OpFPIsNaN, 0, c.args[0].(*Term)), true
		},

		"math/bits.Len64":           func(ex *Exec, c *callCtx) (Value, bool) { return ex.bitsLen(c.args[0].(*Term)), true },
		"math/bits.Len":             func(ex *Exec, c *callCtx) (Value, bool) { return ex.bitsLen(c.args[0].(*Term)), true },
		"math/bits.Len32":           func(ex *Exec, c *callCtx) (Value, bool) { return ex.bitsLen(c.args[0].(*Term)), true },
		"math/bits.Len8":            func(ex *Exec, c *callCtx) (Value, bool) { return ex.bitsLen(c.args[0].(*Term)), true },
		"math/bits.Len16":           func(ex *Exec, c *callCtx) (Value, bool) { return ex.bitsLen(c.args[0].(*Term)), true },
		"math/bits.OnesCount64":     func(ex *Exec, c *callCtx) (Value, bool) { return ex.onesCount(c.args[0].(*Term)), true },
		"math/bits.OnesCount":       func(ex *Exec, c *callCtx) (Value, bool) { return ex.onesCount(c.args[0].(*Term)), true },
		"math/bits.TrailingZeros64": func(ex *Exec, c *callCtx) (Value, bool) { return ex.trailingZeros(c.args[0].(*Term)), true },
		"math/bits.TrailingZeros":   func(ex *Exec, c *callCtx) (Value, bool) { return ex.trailingZeros(c.args[0].(*Term)), true },

		"(*sync.Mutex).Lock":      inLock("lock"),
		"(*sync.Mutex).Unlock":    inLock("unlock"),
		"(*sync.Mutex).TryLock":   inTryLock,
		"(*sync.RWMutex).TryLock": inTryLock,
		"(*sync.RWMutex).Lock":    inLock("lock"),
		"(*sync.RWMutex).Unlock":  inLock("unlock"),
		"(*sync.RWMutex).RLock":   inLock("rlock"),
		"(*sync.RWMutex).RUnlock": inLock("runlock"),
		"(*sync.WaitGroup).Add":   inNop,
		"(*sync.WaitGroup).Done":  inNop,
		"(*sync.WaitGroup).Wait":  inNop,
		"(*sync.Cond).Broadcast":  inNop,
		"(*sync.Cond).Signal":     inNop,
		"runtime.Gosched":         inNop,
		"runtime.KeepAlive":       inNop,
		"runtime.SetFinalizer":    inNop,

		"sync/atomic.LoadInt32":            inAtomicLoad,
		"sync/atomic.LoadInt64":            inAtomicLoad,
		"sync/atomic.LoadUint32":           inAtomicLoad,
		"sync/atomic.LoadUint64":           inAtomicLoad,
		"sync/atomic.LoadPointer":          inAtomicLoad,
		"sync/atomic.StoreInt32":           inAtomicStore,
		"sync/atomic.StoreInt64":           inAtomicStore,
		"sync/atomic.StoreUint32":          inAtomicStore,
		"sync/atomic.StoreUint64":          inAtomicStore,
		"sync/atomic.AddInt32":             inAtomicAdd,
		"sync/atomic.AddInt64":             inAtomicAdd,
		"sync/atomic.AddUint32":            inAtomicAdd,
		"sync/atomic.AddUint64":            inAtomicAdd,
		"sync/atomic.CompareAndSwapInt32":  inAtomicCAS,
		"sync/atomic.CompareAndSwapInt64":  inAtomicCAS,
		"sync/atomic.CompareAndSwapUint32": inAtomicCAS,
		"sync/atomic.CompareAndSwapUint64": inAtomicCAS,

		"path/filepath.Join":   inFilepathJoin,
		"context.WithTimeout":  inCtxDerive,
		"context.WithDeadline": inCtxDerive,
		"context.WithCancel":   inCtxDerive,
		// file set: os.Remove deletes the name (and reports success either way: the one caller in
		// scope ignores not-exist errors); TouchFile/FileExists are the harness side of it
		"os.Remove": func(ex *Exec, c *callCtx) (Value, bool) {
			if p, ok := strConcrete(c.args[0].(Str)); ok {
				c.s.removeFile(p)
			} else {
				unsupported("os.Remove with symbolic path")
			}
			return Iface{}, true
		},
		rt + "NewFile":      inNewFile,
		"(*os.File).Write":  inFileWrite,
		"(*os.File).ReadAt": inFileReadAt,
		"(*os.File).Seek":   inFileSeek,
		"(*os.File).Sync":   func(ex *Exec, c *callCtx) (Value, bool) { ex.osFileOf(c); return Iface{}, true },
		"(*os.File).Close":  func(ex *Exec, c *callCtx) (Value, bool) { ex.osFileOf(c); return Iface{}, true },
		rt + "TempDir":      func(ex *Exec, c *callCtx) (Value, bool) { return ex.strConst("/verifrt-vfs"), true },
		rt + "TouchFile": func(ex *Exec, c *callCtx) (Value, bool) {
			p, ok := strConcrete(c.args[0].(Str))
			if !ok {
				unsupported("TouchFile with symbolic path")
			}
			c.s.touchFile(p)
			return nil, true
		},
		rt + "FileExists": func(ex *Exec, c *callCtx) (Value, bool) {
			p, ok := strConcrete(c.args[0].(Str))
			if !ok {
				unsupported("FileExists with symbolic path")
			}
			return ex.tt.Bool(c.s.files[p]), true
		},
		"internal/bytealg.MakeNoZero": func(ex *Exec, c *callCtx) (Value, bool) {
			n, ok := ex.concretize(c.s, c.args[0].(*Term), ex.lim.MaxAlloc*64, c.pend)
			if !ok {
				return nil, false
			}
			arr := make(Agg, n)
			for i := range arr {
				arr[i] = ex.tt.BV(0, 8)
			}
			obj := c.s.alloc(arr)
			ln := ex.tt.BV(uint64(n), 64)
			return Slice{Base: Ptr{Obj: obj}, Off: ex.tt.BV(0, 64), Len: ln, Cap: ln}, true
		},
		"(*strings.Builder).String": func(ex *Exec, c *callCtx) (Value, bool) {
			// the real method goes through unsafe.String(unsafe.SliceData(buf)); same content
			b := ex.load(c.s, c.args[0].(Ptr)).(Agg)
			sl := b[1].(Slice)
			n, ok := ex.concretize(c.s, sl.Len, 4096, c.pend)
			if !ok {
				return nil, false
			}
			return Str{B: ex.sliceElems(c.s, sl, n)}, true
		},
		"sort.Slice":       inSortSlice,
		"sort.SliceStable": inSortSlice,
		"fmt.Errorf":       inErrorf,
		"fmt.Sprintf":      inSprintf,
		"fmt.Sprint":       inSprintf,
		"errors.Is":        inErrorsIs,
		"errors.As":        func(ex *Exec, c *callCtx) (Value, bool) { unsupported("errors.As"); return nil, false },
	}
}

func inNop(ex *Exec, c *callCtx) (Value, bool) { return nil, true }

var sanitizeRe = regexp.MustCompile(`[^A-Za-z0-9_]`)

func (ex *Exec) strArg(v Value) string {
	st, ok := v.(Str)
	if !ok {
		unsupported("string argument expected, got %T", v)
	}
	cs, ok := strConcrete(st)
	if !ok {
		unsupported("concrete string argument expected")
	}
	return cs
}

func (ex *Exec) nextKey(s *State, name string) (key, smt string) {
	n := s.seq[name]
	s.seq[name] = n + 1
	key = fmt.Sprintf("%s#%d", name, n)
	smt = fmt.Sprintf("n_%s_%d", sanitizeRe.ReplaceAllString(name, "_"), n)
	return
}

func (ex *Exec) nondet(c *callCtx, kind string, w int) Value {
	name := ex.strArg(c.args[0])
	key, smt := ex.nextKey(c.s, name)
	var t *Term
	if ex.Concrete != nil {
		v := ex.Concrete[key]
		if v == nil {
			v = big.NewInt(0)
		}
		if w == 0 {
			t = ex.tt.Bool(v.Sign() != 0)
		} else {
			t = ex.tt.BVBig(v, w)
		}
	} else {
		t = ex.tt.Var(smt, w)
	}
	c.s.inputs = append(c.s.inputs, Input{Key: key, Kind: kind, Terms: []*Term{t}})
	return t
}

func (ex *Exec) nondetBytes(s *State, name string, n int, kind string) Agg {
	key, smt := ex.nextKey(s, name)
	arr := make(Agg, n)
	terms := make([]*Term, n)
	var conc []byte
	if ex.Concrete != nil {
		if v := ex.Concrete[key]; v != nil {
			conc = v.Bytes()
			// left-pad to n
			if len(conc) < n {
				conc = append(make([]byte, n-len(conc)), conc...)
			}
		} else {
			conc = make([]byte, n)
		}
	}
	var wide *Term
	if conc == nil && kind == "digest" && n > 0 {
		// one wide variable; bytes are its big-endian slices (keeps hash inputs compact)
		wide = ex.tt.Var(smt, 8*n)
	}
	for i := 0; i < n; i++ {
		switch {
		case conc != nil:
			terms[i] = ex.tt.BV(uint64(conc[i]), 8)
		case wide != nil:
			terms[i] = ex.tt.Extract(wide, 8*(n-i)-1, 8*(n-i-1))
		default:
			terms[i] = ex.tt.Var(fmt.Sprintf("%s_b%d", smt, i), 8)
		}
		arr[i] = terms[i]
	}
	s.inputs = append(s.inputs, Input{Key: key, Kind: kind, Terms: terms, Wide: wide})
	return arr
}

func inBytes(ex *Exec, c *callCtx) (Value, bool) {
	name := ex.strArg(c.args[0])
	nT := c.args[1].(*Term)
	n, ok := ex.concretize(c.s, nT, ex.lim.MaxAlloc, c.pend)
	if !ok {
		return nil, false
	}
	arr := ex.nondetBytes(c.s, name, n, "bytes")
	obj := c.s.alloc(arr)
	ln := ex.tt.BV(uint64(n), 64)
	return Slice{Base: Ptr{Obj: obj}, Off: ex.tt.BV(0, 64), Len: ln, Cap: ln}, true
}

// BytesUpTo(name, max): a slice of symbolic length 0..max over max symbolic bytes.
func inBytesUpTo(ex *Exec, c *callCtx) (Value, bool) {
	name := ex.strArg(c.args[0])
	mT := c.args[1].(*Term)
	if !mT.IsConst() {
		unsupported("BytesUpTo: max must be concrete")
	}
	max := int(mT.U64())
	arr := ex.nondetBytes(c.s, name, max, "bytes")
	obj := c.s.alloc(arr)
	lkey, lsmt := ex.nextKey(c.s, name+".len")
	var ln *Term
	if ex.Concrete != nil {
		v := ex.Concrete[lkey]
		if v == nil {
			v = big.NewInt(0)
		}
		ln = ex.tt.BVBig(v, 64)
	} else {
		ln = ex.tt.Var(lsmt, 64)
	}
	c.s.inputs = append(c.s.inputs, Input{Key: lkey, Kind: "int", Terms: []*Term{ln}})
	le := ex.tt.Cmp(OpULe, ln, ex.tt.BV(uint64(max), 64))
	if le.IsFalse() {
		c.s.end(Dead, "BytesUpTo length out of range")
		return nil, false
	}
	c.s.addPC(le)
	return Slice{Base: Ptr{Obj: obj}, Off: ex.tt.BV(0, 64), Len: ln, Cap: ln}, true
}

func inDigest(ex *Exec, c *callCtx) (Value, bool) {
	name := ex.strArg(c.args[0])
	return ex.nondetBytes(c.s, name, 32, "digest"), true
}

func inDigests(ex *Exec, c *callCtx, upTo bool) (Value, bool) {
	name := ex.strArg(c.args[0])
	nT := c.args[1].(*Term)
	if !nT.IsConst() {
		unsupported("Digests: count must be concrete")
	}
	n := int(nT.U64())
	arr := make(Agg, n)
	for i := 0; i < n; i++ {
		arr[i] = ex.nondetBytes(c.s, name, 32, "digest")
	}
	obj := c.s.alloc(arr)
	ln := ex.tt.BV(uint64(n), 64)
	if upTo {
		lkey, lsmt := ex.nextKey(c.s, name+".len")
		if ex.Concrete != nil {
			v := ex.Concrete[lkey]
			if v == nil {
				v = big.NewInt(0)
			}
			ln = ex.tt.BVBig(v, 64)
		} else {
			ln = ex.tt.Var(lsmt, 64)
		}
		c.s.inputs = append(c.s.inputs, Input{Key: lkey, Kind: "int", Terms: []*Term{ln}})
		le := ex.tt.Cmp(OpULe, ln, ex.tt.BV(uint64(n), 64))
		if le.IsFalse() {
			c.s.end(Dead, "DigestsUpTo length out of range")
			return nil, false
		}
		c.s.addPC(le)
	}
	return Slice{Base: Ptr{Obj: obj}, Off: ex.tt.BV(0, 64), Len: ln, Cap: ln}, true
}

func inAssume(ex *Exec, c *callCtx) (Value, bool) {
	t := c.args[0].(*Term)
	if t.IsTrue() {
		return nil, true
	}
	if t.IsFalse() {
		if ex.Concrete != nil {
			ex.ConcTrace = append(ex.ConcTrace, "assume-false")
		}
		c.s.end(Dead, "assume")
		return nil, false
	}
	if known, ok := c.s.pcSet[t.ID]; ok {
		if known {
			return nil, true
		}
		c.s.end(Dead, "assume")
		return nil, false
	}
	r := ex.sol.Check(c.s.pc, t)
	if r == Unsat {
		c.s.end(Dead, "assume")
		return nil, false
	}
	if r == Unknown {
		ex.Stats.UnknownFeas++
	}
	c.s.addPC(t)
	return nil, true
}

func inAssert(ex *Exec, c *callCtx) (Value, bool) {
	t := c.args[0].(*Term)
	label := ex.strArg(c.args[1])
	ex.Stats.AssertChecked++
	ex.Stats.AssertLabels[label]++
	if ex.Concrete != nil {
		if t.IsTrue() {
			ex.ConcTrace = append(ex.ConcTrace, "assert-ok "+label)
			return nil, true
		}
		ex.ConcTrace = append(ex.ConcTrace, "assert-fail "+label)
		c.s.end(AssertFailed, label)
		return nil, false
	}
	if t.IsTrue() {
		ex.Stats.AssertHeld++
		return nil, true
	}
	if known, ok := c.s.pcSet[t.ID]; ok && known {
		ex.Stats.AssertHeld++
		return nil, true
	}
	want := ex.wantTerms(c.s)
	r, model := ex.sol.CheckModel(c.s.pc, []*Term{ex.tt.Not(t)}, want)
	if r == Unknown {
		// portfolio: retry the assertion query on the other back ends, longer timeout
		for _, alt := range []string{"cvc5", "z3-new", "z3"} {
			if alt == ex.sol.Kind {
				continue
			}
			as, err := NewSolver(alt, ex.tt, 3*ex.lim.TimeoutMs)
			if err != nil {
				continue
			}
			r2, m2 := as.CheckModel(c.s.pc, []*Term{ex.tt.Not(t)}, want)
			ex.sol.Time += as.Time
			as.Close()
			ex.Stats.Portfolio++
			if r2 != Unknown {
				r, model = r2, m2
				break
			}
		}
	}
	switch r {
	case Unsat:
		ex.Stats.AssertHeld++
		// keep the proven fact as a lemma for later queries on this path
		c.s.addPC(t)
		return nil, true
	case Unknown:
		ex.Stats.AssertUnknown++
	case Sat:
		ex.Stats.AssertFailed++
		ex.recordFinding(c.s, "assert", label, ex.callerSite(c.s), model)
	}
	// continue on the side where the assertion holds, if feasible
	if t.IsFalse() {
		c.s.end(Dead, "assert-false")
		return nil, false
	}
	r2 := ex.sol.Check(c.s.pc, t)
	if r2 == Unsat {
		c.s.end(Dead, "assert-false")
		return nil, false
	}
	c.s.addPC(t)
	return nil, true
}

func (ex *Exec) callerSite(s *State) string {
	return ex.where()
}

func inReach(ex *Exec, c *callCtx) (Value, bool) {
	label := ex.strArg(c.args[0])
	ex.Stats.ReachCount[label]++
	if ex.Concrete != nil {
		ex.ConcTrace = append(ex.ConcTrace, "reach "+label)
		return nil, true
	}
	if _, ok := ex.Witnesses[label]; !ok {
		want := ex.wantTerms(c.s)
		r, model := ex.sol.CheckModel(c.s.pc, nil, want)
		if r == Sat {
			ex.Witnesses[label] = &Witness{Label: label, Stream: ex.streamFromModel(c.s, model)}
		}
	}
	return nil, true
}

func inEvent(ex *Exec, c *callCtx) (Value, bool) {
	name := ex.strArg(c.args[0])
	ev := Event{Name: name}
	if sl, ok := c.args[1].(Slice); ok && sl.Base.Obj != 0 {
		n := int(sl.Len.U64())
		arr := ex.backing(c.s, sl)
		for k := 0; k < n; k++ {
			if ifc, ok := arr[k].(Iface); ok {
				ev.Args = append(ev.Args, ifc.V)
			}
		}
	}
	c.s.events = append(c.s.events, ev)
	return nil, true
}

func inParam(ex *Exec, c *callCtx) (Value, bool) {
	name := ex.strArg(c.args[0])
	v, ok := ex.params[name]
	if !ok {
		unsupported("missing parameter %q", name)
	}
	return ex.tt.BV(uint64(int64(v)), 64), true
}

func inStub(ex *Exec, c *callCtx) (Value, bool) {
	name := ex.strArg(c.args[0])
	ifc := c.args[1].(Iface)
	cl, ok := ifc.V.(*Closure)
	if !ok {
		unsupported("Stub: second argument must be a function")
	}
	c.s.stubs[name] = cl
	return nil, true
}

func inMerge(ex *Exec, c *callCtx) (Value, bool) {
	ex.merge[ex.strArg(c.args[0])] = true
	return nil, true
}

// ---- SHA-256 model ----

func (ex *Exec) hashAxioms(h HashApp) []*Term {
	tt := ex.tt
	n := len(h.In)
	var ax []*Term
	if n > 0 {
		in := make([]*Term, n)
		copy(in, h.In)
		x := tt.Concat(in...)
		ax = append(ax, tt.Eq(tt.UF(fmt.Sprintf("sha256inv_%d", n), 8*n, h.App), x))
	}
	ax = append(ax, tt.Eq(tt.UF("sha256len", 16, h.App), tt.BV(uint64(n), 16)))
	return ax
}

// HashAxiomMode selects the collision-freedom encoding: "inv" (left inverse + length tag,
// linear), "pair" (pairwise injectivity instances, quadratic) or "both".
var HashAxiomMode = "pair"

// addHashApp records a hash application on the path with its collision-freedom axioms.
func (ex *Exec) addHashApp(s *State, h HashApp) {
	ax := func(t *Term) {
		if s.axiomIDs == nil {
			s.axiomIDs = map[int]bool{}
		}
		s.axiomIDs[t.ID] = true
		s.addPC(t)
	}
	if HashAxiomMode != "pair" {
		for _, a := range ex.hashAxioms(h) {
			ax(a)
		}
	}
	if HashAxiomMode != "inv" {
		// same-length applications: pairwise injectivity; different lengths are separated
		// by the (linear) length tag
		for _, o := range s.hashes {
			if len(o.In) == len(h.In) {
				ax(ex.pairAxiom(o, h))
			}
		}
		ax(ex.tt.Eq(ex.tt.UF("sha256len", 16, h.App), ex.tt.BV(uint64(len(h.In)), 16)))
	}
	// no hash cycles: every whole digest embedded in the input ranks below the output
	if len(h.In) >= 32 {
		x := ex.tt.Concat(append([]*Term(nil), h.In...)...)
		rh := ex.tt.UF("sha256rank", 16, h.App)
		for _, sg := range segsOf(x) {
			p := sg.t
			if p != nil && p.W == 256 && (p.Op == OpVar || p.Op == OpUF) {
				ax(ex.tt.Cmp(OpULt, ex.tt.UF("sha256rank", 16, p), rh))
			}
		}
	}
	s.hashes = append(s.hashes, h)
}

// hashBytes applies the collision-free SHA-256 model to concrete-length input bytes.
func (ex *Exec) hashBytes(s *State, in []*Term) Agg {
	tt := ex.tt
	out := make(Agg, 32)
	if ex.Concrete != nil {
		bs := make([]byte, len(in))
		for i, t := range in {
			if !t.IsConst() {
				panic("concrete mode: symbolic hash input")
			}
			bs[i] = byte(t.U64())
		}
		d := sha256.Sum256(bs)
		for i := range out {
			out[i] = tt.BV(uint64(d[i]), 8)
		}
		return out
	}
	var app *Term
	if len(in) == 0 {
		app = tt.UF("sha256_0", 256, tt.BV(0, 8))
	} else {
		cp := make([]*Term, len(in))
		copy(cp, in)
		app = tt.UF(fmt.Sprintf("sha256_%d", len(in)), 256, tt.Concat(cp...))
	}
	known := false
	for _, h := range s.hashes {
		if h.App == app {
			known = true
			break
		}
	}
	if !known {
		ex.addHashApp(s, HashApp{App: app, In: append([]*Term(nil), in...)})
	}
	for i := range out {
		out[i] = tt.Extract(app, 255-8*i, 248-8*i)
	}
	return out
}

func inSum256(ex *Exec, c *callCtx) (Value, bool) {
	sl := c.args[0].(Slice)
	in, ok := ex.sliceBytesConcrete(c.s, sl, c.pend)
	if !ok {
		return nil, false
	}
	return ex.hashBytes(c.s, in), true
}

// HasherVal is the state of a sha256.New() hasher.
type HasherVal struct{ B []*Term }

func inSha256New(ex *Exec, c *callCtx) (Value, bool) {
	obj := c.s.alloc(&HasherVal{})
	return Iface{T: ex.prog.hasherType, V: Ptr{Obj: obj}}, true
}

func (ex *Exec) hasherMethod(s *State, recv Iface, name string, args []Value, pend *pending) (Value, bool) {
	p := recv.V.(Ptr)
	hv := s.heap[p.Obj].(*HasherVal)
	tt := ex.tt
	switch name {
	case "Write":
		in, ok := ex.sliceBytesConcrete(s, args[0].(Slice), pend)
		if !ok {
			return nil, false
		}
		if p.Obj < s.mergeBase {
			s.wroteOld = true
		}
		s.heap[p.Obj] = &HasherVal{B: append(append([]*Term(nil), hv.B...), in...)}
		return Tuple{tt.BV(uint64(len(in)), 64), Iface{}}, true
	case "Reset":
		if p.Obj < s.mergeBase {
			s.wroteOld = true
		}
		s.heap[p.Obj] = &HasherVal{}
		return nil, true
	case "Sum":
		d := ex.hashBytes(s, hv.B)
		add := make(Agg, 32)
		copy(add, d)
		tmp := s.alloc(add)
		n := tt.BV(32, 64)
		src := Slice{Base: Ptr{Obj: tmp}, Off: tt.BV(0, 64), Len: n, Cap: n}
		return ex.appendOp(s, args[0].(Slice), src, nil, pend)
	case "Size":
		return tt.BV(32, 64), true
	case "BlockSize":
		return tt.BV(64, 64), true
	}
	unsupported("hasher method %s", name)
	return nil, false
}

// ---- bytes ----

func (ex *Exec) bytesEqTerm(s *State, a, b Slice) *Term {
	tt := ex.tt
	na, nb := ex.sliceBound(s, a), ex.sliceBound(s, b)
	n := na
	if nb < n {
		n = nb
	}
	cs := []*Term{tt.Eq(a.Len, b.Len)}
	if n > 0 {
		ea, eb := ex.sliceElems(s, a, n), ex.sliceElems(s, b, n)
		for k := 0; k < n; k++ {
			in := tt.Cmp(OpULt, tt.BV(uint64(k), 64), a.Len)
			cs = append(cs, tt.Implies(in, tt.Eq(ea[k], eb[k])))
		}
	}
	return tt.And(cs...)
}

func inBytesEqual(ex *Exec, c *callCtx) (Value, bool) {
	return ex.bytesEqTerm(c.s, c.args[0].(Slice), c.args[1].(Slice)), true
}

func inBytesCompare(ex *Exec, c *callCtx) (Value, bool) {
	tt := ex.tt
	a, b := c.args[0].(Slice), c.args[1].(Slice)
	na, nb := ex.sliceBound(c.s, a), ex.sliceBound(c.s, b)
	n := na
	if nb < n {
		n = nb
	}
	one, zero, neg := tt.BV(1, 64), tt.BV(0, 64), tt.BVBig(big.NewInt(-1), 64)
	// result when all compared positions are equal: by length
	res := tt.Ite(tt.Cmp(OpULt, a.Len, b.Len), neg, tt.Ite(tt.Cmp(OpULt, b.Len, a.Len), one, zero))
	if n > 0 {
		ea, eb := ex.sliceElems(c.s, a, n), ex.sliceElems(c.s, b, n)
		for k := n - 1; k >= 0; k-- {
			kk := tt.BV(uint64(k), 64)
			both := tt.And(tt.Cmp(OpULt, kk, a.Len), tt.Cmp(OpULt, kk, b.Len))
			res = tt.Ite(both,
				tt.Ite(tt.Cmp(OpULt, ea[k], eb[k]), neg, tt.Ite(tt.Cmp(OpULt, eb[k], ea[k]), one, res)),
				res)
		}
	}
	return res, true
}

// ---- encoding/binary ----

func (ex *Exec) beGet(c *callCtx, n int) (Value, bool) {
	sl := c.args[len(c.args)-1].(Slice)
	if !ex.guard(c.s, ex.tt.Cmp(OpULe, ex.tt.BV(uint64(n), 64), sl.Len), "index out of range (binary)", c.pend) {
		return nil, false
	}
	arr := ex.backing(c.s, sl)
	parts := make([]*Term, n)
	for k := 0; k < n; k++ {
		parts[k] = ex.elemAt(arr, sl.Off, k)
	}
	return ex.tt.Concat(parts...), true
}

func (ex *Exec) leGet(c *callCtx, n int) (Value, bool) {
	sl := c.args[len(c.args)-1].(Slice)
	if !ex.guard(c.s, ex.tt.Cmp(OpULe, ex.tt.BV(uint64(n), 64), sl.Len), "index out of range (binary)", c.pend) {
		return nil, false
	}
	arr := ex.backing(c.s, sl)
	parts := make([]*Term, n)
	for k := 0; k < n; k++ {
		parts[n-1-k] = ex.elemAt(arr, sl.Off, k)
	}
	return ex.tt.Concat(parts...), true
}

func (ex *Exec) bePut(c *callCtx, n int) (Value, bool) {
	sl := c.args[len(c.args)-2].(Slice)
	v := c.args[len(c.args)-1].(*Term)
	if !ex.guard(c.s, ex.tt.Cmp(OpULe, ex.tt.BV(uint64(n), 64), sl.Len), "index out of range (binary)", c.pend) {
		return nil, false
	}
	for k := 0; k < n; k++ {
		b := ex.tt.Extract(v, 8*(n-k)-1, 8*(n-k-1))
		p := Ptr{Obj: sl.Base.Obj, Path: extendPath(sl.Base.Path, ex.elemPath(sl.Off, ex.tt.BV(uint64(k), 64)))}
		ex.store(c.s, p, b)
	}
	return nil, true
}

func (ex *Exec) lePut(c *callCtx, n int) (Value, bool) {
	sl := c.args[len(c.args)-2].(Slice)
	v := c.args[len(c.args)-1].(*Term)
	if !ex.guard(c.s, ex.tt.Cmp(OpULe, ex.tt.BV(uint64(n), 64), sl.Len), "index out of range (binary)", c.pend) {
		return nil, false
	}
	for k := 0; k < n; k++ {
		b := ex.tt.Extract(v, 8*k+7, 8*k)
		p := Ptr{Obj: sl.Base.Obj, Path: extendPath(sl.Base.Path, ex.elemPath(sl.Off, ex.tt.BV(uint64(k), 64)))}
		ex.store(c.s, p, b)
	}
	return nil, true
}

// ---- math/bits ----

func (ex *Exec) bitsLen(x *Term) *Term {
	tt := ex.tt
	if x.IsConst() {
		return tt.BV(uint64(bits.Len64(x.U64())), 64)
	}
	res := tt.BV(0, 64)
	for k := 0; k < x.W; k++ {
		// if bit k is the highest set bit => k+1 ; build from low to high so higher wins
		bit := tt.Eq(tt.Extract(x, k, k), tt.BV(1, 1))
		res = tt.Ite(bit, tt.BV(uint64(k+1), 64), res)
	}
	return res
}

func (ex *Exec) onesCount(x *Term) *Term {
	tt := ex.tt
	if x.IsConst() {
		return tt.BV(uint64(bits.OnesCount64(x.U64())), 64)
	}
	res := tt.BV(0, 64)
	for k := 0; k < x.W; k++ {
		res = tt.Bin(OpAdd, res, tt.ZExt(tt.Extract(x, k, k), 64))
	}
	return res
}

func (ex *Exec) trailingZeros(x *Term) *Term {
	tt := ex.tt
	if x.IsConst() {
		if x.W == 64 {
			return tt.BV(uint64(bits.TrailingZeros64(x.U64())), 64)
		}
	}
	res := tt.BV(uint64(x.W), 64)
	for k := x.W - 1; k >= 0; k-- {
		bit := tt.Eq(tt.Extract(x, k, k), tt.BV(1, 1))
		res = tt.Ite(bit, tt.BV(uint64(k), 64), res)
	}
	return res
}

// ---- sync ----

func inLock(kind string) intrinsic {
	return func(ex *Exec, c *callCtx) (Value, bool) {
		c.s.events = append(c.s.events, Event{Name: kind, Args: []Value{c.args[0]}})
		// writer-lock depth per mutex (observable through TryLock only; a blocking Lock of a
		// held mutex is not modelled: one goroutine, no schedules)
		if p, ok := c.args[0].(Ptr); ok && (kind == "lock" || kind == "unlock") {
			d := 1
			if kind == "unlock" {
				d = -1
			}
			c.s.addLock(lockKey(p), d)
		}
		return nil, true
	}
}

func lockKey(p Ptr) string { return fmt.Sprintf("%d/%v", p.Obj, p.Path) }

// TryLock succeeds iff the mutex is not held (by the single goroutine of the run).
func inTryLock(ex *Exec, c *callCtx) (Value, bool) {
	p, ok := c.args[0].(Ptr)
	if !ok {
		return ex.tt.True, true
	}
	k := lockKey(p)
	if c.s.locks[k] > 0 {
		return ex.tt.False, true
	}
	c.s.addLock(k, 1)
	return ex.tt.True, true
}

func inAtomicLoad(ex *Exec, c *callCtx) (Value, bool) {
	p := c.args[0].(Ptr)
	if p.Obj == 0 {
		c.s.end(Panicked, "nil pointer dereference (atomic) at "+ex.where())
		return nil, false
	}
	return ex.load(c.s, p), true
}

func inAtomicStore(ex *Exec, c *callCtx) (Value, bool) {
	p := c.args[0].(Ptr)
	if p.Obj == 0 {
		c.s.end(Panicked, "nil pointer dereference (atomic) at "+ex.where())
		return nil, false
	}
	ex.store(c.s, p, c.args[1])
	return nil, true
}

func inAtomicAdd(ex *Exec, c *callCtx) (Value, bool) {
	p := c.args[0].(Ptr)
	if p.Obj == 0 {
		c.s.end(Panicked, "nil pointer dereference (atomic) at "+ex.where())
		return nil, false
	}
	nv := ex.tt.Bin(OpAdd, ex.load(c.s, p).(*Term), c.args[1].(*Term))
	ex.store(c.s, p, nv)
	return nv, true
}

func inAtomicCAS(ex *Exec, c *callCtx) (Value, bool) {
	p := c.args[0].(Ptr)
	if p.Obj == 0 {
		c.s.end(Panicked, "nil pointer dereference (atomic) at "+ex.where())
		return nil, false
	}
	old := ex.load(c.s, p).(*Term)
	eq := ex.tt.Eq(old, c.args[1].(*Term))
	ex.store(c.s, p, ex.tt.Ite(eq, c.args[2].(*Term), old))
	return eq, true
}

// ---- errors / fmt ----

func (ex *Exec) variadicArgs(s *State, v Value) []Value {
	sl, ok := v.(Slice)
	if !ok || sl.Base.Obj == 0 {
		return nil
	}
	n := int(sl.Len.U64())
	arr := ex.backing(s, sl)
	out := make([]Value, n)
	off := int(sl.Off.U64())
	copy(out, arr[off:off+n])
	return out
}

// fmt.Errorf: an error wrapping the first error argument when the format has %w.
func inErrorf(ex *Exec, c *callCtx) (Value, bool) {
	format := "?"
	if st, ok := c.args[0].(Str); ok {
		if cs, ok := strConcrete(st); ok {
			format = cs
		}
	}
	var wrapped Value
	if strings.Contains(format, "%w") {
		for _, a := range ex.variadicArgs(c.s, c.args[1]) {
			if ifc, ok := a.(Iface); ok && ifc.T != nil && types.Implements(ifc.T, ex.prog.errorIface()) {
				wrapped = ifc
				break
			}
		}
	}
	msg := ex.strConst(format)
	if wrapped == nil {
		return ex.newErrorString(c.s, format), true
	}
	wt := ex.prog.wrapErrorType()
	if wt == nil {
		unsupported("fmt.wrapError type not found")
	}
	obj := c.s.alloc(Agg{msg, wrapped})
	return Iface{T: types.NewPointer(wt), V: Ptr{Obj: obj}}, true
}

func inSprintf(ex *Exec, c *callCtx) (Value, bool) {
	format := ""
	var rest []Value
	if c.fn.Name() == "Sprintf" {
		st, ok := c.args[0].(Str)
		if !ok {
			unsupported("Sprintf format")
		}
		cs, ok := strConcrete(st)
		if !ok {
			return ex.strConst("<fmt>"), true
		}
		format = cs
		rest = ex.variadicArgs(c.s, c.args[1])
	} else {
		rest = ex.variadicArgs(c.s, c.args[0])
	}
	var goArgs []interface{}
	for _, a := range rest {
		ifc, ok := a.(Iface)
		if !ok || ifc.T == nil {
			goArgs = append(goArgs, nil)
			continue
		}
		switch v := ifc.V.(type) {
		case *Term:
			if !v.IsConst() {
				if v.W == 0 {
					return ex.strConst("<fmt:" + format + ">"), true
				}
				// case-split a symbolic integer into its feasible values (e.g. chunk ids)
				cv, ok := ex.concretizeAny(c.s, v, c.pend)
				if !ok {
					return nil, false
				}
				v = ex.tt.BV(cv, v.W)
			}
			if v.W == 0 {
				goArgs = append(goArgs, v.IsTrue())
			} else if isUnsigned(ifc.T) {
				goArgs = append(goArgs, v.U64())
			} else {
				goArgs = append(goArgs, v.S64())
			}
		case Str:
			cs, ok := strConcrete(v)
			if !ok {
				return ex.strConst("<fmt:" + format + ">"), true
			}
			goArgs = append(goArgs, cs)
		default:
			return ex.strConst("<fmt:" + format + ">"), true
		}
	}
	if c.fn.Name() == "Sprintf" {
		return ex.strConst(fmt.Sprintf(format, goArgs...)), true
	}
	return ex.strConst(fmt.Sprint(goArgs...)), true
}

// context.WithTimeout/WithDeadline/WithCancel: the parent context (never cancelled, no timers)
// and a no-op cancel function.
func inCtxDerive(ex *Exec, c *callCtx) (Value, bool) {
	return Tuple{c.args[0], &Closure{Stub: "cancel"}}, true
}

func inFilepathJoin(ex *Exec, c *callCtx) (Value, bool) {
	var parts []string
	for _, a := range ex.variadicArgs(c.s, c.args[0]) {
		st, ok := a.(Str)
		if !ok {
			unsupported("filepath.Join argument")
		}
		cs, ok := strConcrete(st)
		if !ok {
			unsupported("filepath.Join with symbolic string")
		}
		parts = append(parts, cs)
	}
	return ex.strConst(filepath.Join(parts...)), true
}

func inErrorsIs(ex *Exec, c *callCtx) (Value, bool) {
	err, _ := c.args[0].(Iface)
	target, _ := c.args[1].(Iface)
	tt := ex.tt
	wt := ex.prog.wrapErrorType()
	for depth := 0; depth < 16; depth++ {
		if err.T == nil {
			return tt.Bool(target.T == nil), true
		}
		eq := ex.valueEq(c.s, err, target)
		if !eq.IsConst() {
			unsupported("errors.Is: symbolic error identity")
		}
		if eq.IsTrue() {
			return tt.True, true
		}
		// unwrap
		if wt != nil && types.Identical(err.T, types.NewPointer(wt)) {
			inner := ex.load(c.s, err.V.(Ptr)).(Agg)[1]
			err, _ = inner.(Iface)
			continue
		}
		// a type with an Unwrap method: only direct struct field named "err"/"Err" or "cause" is followed
		if fn := ex.prog.lookupMethodByName(err.T, "Unwrap"); fn != nil {
			unsupported("errors.Is: custom Unwrap on %v", err.T)
		}
		return tt.False, true
	}
	return tt.False, true
}

func (ex *Exec) pairAxiom(a, b HashApp) *Term {
	tt := ex.tt
	if len(a.In) != len(b.In) {
		return tt.Not(tt.Eq(a.App, b.App))
	}
	if len(a.In) == 0 {
		return tt.True
	}
	x := tt.Concat(append([]*Term(nil), a.In...)...)
	y := tt.Concat(append([]*Term(nil), b.In...)...)
	return tt.Implies(tt.Eq(a.App, b.App), tt.Eq(x, y))
}

// ---- *os.File model (verifrt.NewFile) ----

const osFileCap = 256

func inNewFile(ex *Exec, c *callCtx) (Value, bool) {
	fp := ex.prog.Prog.ImportedPackage("os")
	if fp == nil || fp.Type("File") == nil {
		unsupported("verifrt.NewFile: package os not loaded")
	}
	obj := c.s.alloc(ex.zero(fp.Type("File").Type()))
	arr := make(Agg, osFileCap)
	for i := range arr {
		arr[i] = ex.tt.BV(0, 8)
	}
	c.s.setOSFile(obj, osFile{content: c.s.alloc(arr)})
	return Ptr{Obj: obj}, true
}

func (ex *Exec) osFileOf(c *callCtx) (int, osFile) {
	p, ok := c.args[0].(Ptr)
	if !ok {
		unsupported("*os.File receiver")
	}
	f, ok := c.s.osFiles[p.Obj]
	if !ok {
		unsupported("*os.File not created by verifrt.NewFile")
	}
	return p.Obj, f
}

func (ex *Exec) ioEOF(s *State) Value {
	ip := ex.prog.Prog.ImportedPackage("io")
	if ip == nil || ip.Var("EOF") == nil {
		unsupported("io.EOF not loaded")
	}
	return ex.load(s, Ptr{Obj: ex.globalObj(s, ip.Var("EOF"))})
}

func inFileWrite(ex *Exec, c *callCtx) (Value, bool) {
	obj, f := ex.osFileOf(c)
	b := c.args[1].(Slice)
	n, ok := ex.concretize(c.s, b.Len, osFileCap, c.pend)
	if !ok {
		return nil, false
	}
	if f.pos+n > osFileCap {
		unsupported("os.File model: file larger than %d bytes", osFileCap)
	}
	src := ex.sliceElems(c.s, b, n)
	arr := append(Agg(nil), ex.load(c.s, Ptr{Obj: f.content}).(Agg)...)
	for k := 0; k < n; k++ {
		arr[f.pos+k] = src[k]
	}
	ex.store(c.s, Ptr{Obj: f.content}, arr)
	f.pos += n
	if f.pos > f.size {
		f.size = f.pos
	}
	c.s.setOSFile(obj, f)
	return Tuple{ex.tt.BV(uint64(n), 64), Iface{}}, true
}

func inFileReadAt(ex *Exec, c *callCtx) (Value, bool) {
	_, f := ex.osFileOf(c)
	b := c.args[1].(Slice)
	n, ok := ex.concretize(c.s, b.Len, osFileCap, c.pend)
	if !ok {
		return nil, false
	}
	off, ok := ex.concretize(c.s, c.args[2].(*Term), osFileCap+1, c.pend)
	if !ok {
		return nil, false
	}
	if off >= f.size {
		return Tuple{ex.tt.BV(0, 64), ex.ioEOF(c.s)}, true
	}
	m := n
	if f.size-off < m {
		m = f.size - off
	}
	arr := ex.load(c.s, Ptr{Obj: f.content}).(Agg)
	for k := 0; k < m; k++ {
		p := Ptr{Obj: b.Base.Obj, Path: extendPath(b.Base.Path, ex.elemPath(b.Off, ex.tt.BV(uint64(k), 64)))}
		ex.store(c.s, p, arr[off+k])
	}
	var err Value = Iface{}
	if m < n {
		err = ex.ioEOF(c.s)
	}
	return Tuple{ex.tt.BV(uint64(m), 64), err}, true
}

func inFileSeek(ex *Exec, c *callCtx) (Value, bool) {
	obj, f := ex.osFileOf(c)
	wh := c.args[2].(*Term)
	if !wh.IsConst() || wh.U64() != 0 {
		unsupported("os.File.Seek: only io.SeekStart")
	}
	off, ok := ex.concretize(c.s, c.args[1].(*Term), osFileCap+1, c.pend)
	if !ok {
		return nil, false
	}
	f.pos = off
	c.s.setOSFile(obj, f)
	return Tuple{ex.tt.BV(uint64(off), 64), Iface{}}, true
}

// sort.Slice / sort.SliceStable go through reflection in the library; here the (stable)
// insertion sort of verifrt.SortSlice runs instead, with the caller's less function and an
// engine-provided swap of the slice's elements.
func inSortSlice(ex *Exec, c *callCtx) (Value, bool) {
	x, ok := c.args[0].(Iface)
	if !ok {
		unsupported("sort.Slice argument")
	}
	sl, ok := x.V.(Slice)
	if !ok {
		unsupported("sort.Slice of %T", x.V)
	}
	fn := ex.prog.Harness("embedded/verifrt.SortSlice")
	if fn == nil {
		unsupported("verifrt.SortSlice not loaded")
	}
	var dst ssa.Value
	if v, ok := c.fr.block.Instrs[c.fr.ip].(ssa.Value); ok {
		dst = v
	}
	ex.invoke(c.s, c.fr, fn, []Value{sl.Len, c.args[1], &Closure{Stub: "swap", Bindings: []Value{sl}}}, nil, dst, c.pend, c.call)
	return nil, false
}
