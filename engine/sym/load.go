package sym

import (
	"fmt"
	"go/token"
	"go/types"
	"os"
	"path/filepath"
	"sort"
	"strings"

	"golang.org/x/tools/go/packages"
	"golang.org/x/tools/go/ssa"
	"golang.org/x/tools/go/ssa/ssautil"
)

// Program is the loaded SSA of /repo plus the harness overlay (shared, read-only).
type Program struct {
	Prog    *ssa.Program
	Fset    *token.FileSet
	Pkgs    []*packages.Package
	SSAPkgs []*ssa.Package
	initOrd []*ssa.Package // immudb packages in dependency order

	hasherType types.Type
	opaqueType types.Type
	errStrT    types.Type
	wrapErrT   types.Type
	errIface   *types.Interface
	LoadErrors []string
	fnIndex    map[string]*ssa.Function
}

// Overlay maps /verif/harness/<rel>/file.go to /repo/<rel>/file.go and injects verifrt.
func Overlay(repo, verif string) (map[string][]byte, error) {
	ov := map[string][]byte{}
	hroot := filepath.Join(verif, "harness")
	err := filepath.Walk(hroot, func(p string, info os.FileInfo, err error) error {
		if err != nil {
			return err
		}
		if info.IsDir() || !strings.HasSuffix(p, ".go") {
			return nil
		}
		rel, _ := filepath.Rel(hroot, p)
		b, err := os.ReadFile(p)
		if err != nil {
			return err
		}
		ov[filepath.Join(repo, rel)] = b
		return nil
	})
	if err != nil && !os.IsNotExist(err) {
		return nil, err
	}
	b, err := os.ReadFile(filepath.Join(verif, "engine", "verifrt", "verifrt.go"))
	if err != nil {
		return nil, err
	}
	ov[filepath.Join(repo, "embedded", "verifrt", "verifrt.go")] = b
	return ov, nil
}

// Load type-checks and builds SSA for the given package patterns of /repo.
func Load(repo string, overlay map[string][]byte, patterns ...string) (*Program, error) {
	cfg := &packages.Config{
		Mode:       packages.LoadAllSyntax,
		Dir:        repo,
		BuildFlags: []string{"-tags=verif"},
		Overlay:    overlay,
		Env:        append(os.Environ(), "GOFLAGS=-mod=mod", "GOPROXY=off", "GOTOOLCHAIN=local"),
	}
	pkgs, err := packages.Load(cfg, patterns...)
	if err != nil {
		return nil, err
	}
	p := &Program{Pkgs: pkgs}
	packages.Visit(pkgs, nil, func(pk *packages.Package) {
		for _, e := range pk.Errors {
			if strings.HasPrefix(pk.PkgPath, "github.com/codenotary/immudb") {
				p.LoadErrors = append(p.LoadErrors, fmt.Sprintf("%s: %s", pk.PkgPath, e.Msg))
			}
		}
	})
	if len(p.LoadErrors) > 0 {
		return p, fmt.Errorf("load errors: %s", strings.Join(p.LoadErrors, "; "))
	}
	prog, spkgs := ssautil.AllPackages(pkgs, ssa.InstantiateGenerics)
	prog.Build()
	p.Prog = prog
	p.SSAPkgs = spkgs
	p.Fset = prog.Fset
	p.hasherType = types.NewPointer(types.NewNamed(types.NewTypeName(token.NoPos, nil, "symHasher", nil), types.NewStruct(nil, nil), nil))
	p.opaqueType = types.NewPointer(types.NewNamed(types.NewTypeName(token.NoPos, nil, "symOpaque", nil), types.NewStruct(nil, nil), nil))
	if ep := prog.ImportedPackage("errors"); ep != nil {
		if t := ep.Type("errorString"); t != nil {
			p.errStrT = t.Type()
		}
	}
	if fp := prog.ImportedPackage("fmt"); fp != nil {
		if t := fp.Type("wrapError"); t != nil {
			p.wrapErrT = t.Type()
		}
	}
	p.errIface = types.Universe.Lookup("error").Type().Underlying().(*types.Interface)
	// dependency order of module packages
	seen := map[*packages.Package]bool{}
	var visit func(pk *packages.Package)
	visit = func(pk *packages.Package) {
		if seen[pk] {
			return
		}
		seen[pk] = true
		var imps []string
		for k := range pk.Imports {
			imps = append(imps, k)
		}
		sort.Strings(imps)
		for _, k := range imps {
			visit(pk.Imports[k])
		}
		if strings.HasPrefix(pk.PkgPath, "github.com/codenotary/immudb") {
			if sp := prog.Package(pk.Types); sp != nil {
				p.initOrd = append(p.initOrd, sp)
			}
		}
	}
	for _, pk := range pkgs {
		visit(pk)
	}
	return p, nil
}

func (p *Program) errorStringType() types.Type { return p.errStrT }
func (p *Program) wrapErrorType() types.Type   { return p.wrapErrT }
func (p *Program) errorIface() *types.Interface { return p.errIface }

// Harness finds a harness function "pkgpath.Func" (pkgpath relative to the module).
func (p *Program) Harness(name string) *ssa.Function {
	i := strings.LastIndex(name, ".")
	if i < 0 {
		return nil
	}
	pkgPath, fn := name[:i], name[i+1:]
	for _, sp := range p.Prog.AllPackages() {
		if sp.Pkg.Path() == modPrefix+pkgPath || sp.Pkg.Path() == pkgPath {
			return sp.Func(fn)
		}
	}
	return nil
}

func (p *Program) lookupMethod(t types.Type, m *types.Func) *ssa.Function {
	ms := p.Prog.MethodSets.MethodSet(t)
	sel := ms.Lookup(m.Pkg(), m.Name())
	if sel == nil {
		return nil
	}
	return p.Prog.MethodValue(sel)
}

func (p *Program) lookupMethodByName(t types.Type, name string) *ssa.Function {
	ms := p.Prog.MethodSets.MethodSet(t)
	for i := 0; i < ms.Len(); i++ {
		if ms.At(i).Obj().Name() == name {
			return p.Prog.MethodValue(ms.At(i))
		}
	}
	return nil
}

// initState builds the initial state: module package initialisers run concretely.
func (p *Program) initState(ex *Exec) *State {
	s := &State{heap: map[int]interface{}{}, pcSet: map[int]bool{}, globals: map[*ssa.Global]int{},
		seq: map[string]int{}, stubs: map[string]Value{}, reachSeen: map[string]bool{}}
	s.id = ex.newID()
	for _, sp := range p.initOrd {
		initFn := sp.Func("init")
		if initFn == nil || len(initFn.Blocks) == 0 {
			continue
		}
		is := s.clone(ex.newID())
		is.frames = []*Frame{ex.newFrame(initFn, nil, nil)}
		ex.inInit = true
		forks := ex.runPath(is)
		ex.inInit = false
		if len(forks) > 0 || is.status != Running || len(is.frames) != 0 {
			ex.Stats.Unsupported[fmt.Sprintf("init %s: status=%d %s", sp.Pkg.Path(), is.status, is.why)]++
			continue // keep s as it was before this package's init
		}
		is.frames = nil
		is.steps = 0
		s = is
	}
	s.status = Running
	s.retSet = false
	return s
}

// HarnessFuncs lists the VerifH_* functions of a module-relative package path.
func (p *Program) HarnessFuncs(pkgRel string) []string {
	var out []string
	for _, sp := range p.Prog.AllPackages() {
		if sp.Pkg.Path() != modPrefix+pkgRel {
			continue
		}
		for name, m := range sp.Members {
			if f, ok := m.(*ssa.Function); ok && strings.HasPrefix(name, "VerifH_") && f.Signature.Params().Len() == 0 {
				out = append(out, name)
			}
		}
	}
	sort.Strings(out)
	return out
}

// FuncSource returns the source text of the function with the given ssa name.
func (p *Program) FuncSource(name string) string {
	if p.fnIndex == nil {
		p.fnIndex = map[string]*ssa.Function{}
		for fn := range ssautil.AllFunctions(p.Prog) {
			p.fnIndex[fn.String()] = fn
		}
	}
	fn := p.fnIndex[name]
	if fn == nil || fn.Syntax() == nil {
		return name
	}
	st, en := p.Fset.Position(fn.Syntax().Pos()), p.Fset.Position(fn.Syntax().End())
	b, err := os.ReadFile(st.Filename)
	if err != nil || en.Offset > len(b) {
		return name
	}
	return string(b[st.Offset:en.Offset])
}
