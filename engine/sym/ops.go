package sym

import (
	"fmt"
	"go/token"
	"go/types"
	"math"

	"golang.org/x/tools/go/ssa"
)

func (ex *Exec) binop(s *State, op token.Token, xt types.Type, a, b Value, yt types.Type, pend *pending) (Value, bool) {
	tt := ex.tt
	if isFloat(xt) && (op == token.EQL || op == token.NEQ) {
		e := ex.floatEq(a.(*Term), b.(*Term))
		if op == token.NEQ {
			e = tt.Not(e)
		}
		return e, true
	}
	switch op {
	case token.EQL:
		return ex.valueEq(s, a, b), true
	case token.NEQ:
		return tt.Not(ex.valueEq(s, a, b)), true
	}
	if sa, ok := a.(Str); ok {
		sb := b.(Str)
		switch op {
		case token.ADD:
			return Str{B: append(append([]*Term(nil), sa.B...), sb.B...)}, true
		case token.LSS:
			return ex.strLess(sa, sb, false), true
		case token.LEQ:
			return ex.strLess(sa, sb, true), true
		case token.GTR:
			return ex.strLess(sb, sa, false), true
		case token.GEQ:
			return ex.strLess(sb, sa, true), true
		}
		unsupported("string binop %v", op)
	}
	if pa, ok := a.(Ptr); ok {
		// uintptr(p) ^ 0 (noescape idiom) and similar identities
		if yb, ok := b.(*Term); ok && yb.IsConst() && yb.Val.Sign() == 0 && (op == token.XOR || op == token.OR || op == token.ADD || op == token.SUB) {
			return pa, true
		}
	}
	x, ok1 := a.(*Term)
	y, ok2 := b.(*Term)
	if !ok1 || !ok2 {
		unsupported("binop %v on %T,%T", op, a, b)
	}
	if isFloat(xt) {
		return ex.floatBinop(op, x, y), true
	}
	if x.W == 0 {
		switch op {
		case token.AND, token.LAND:
			return tt.And(x, y), true
		case token.OR, token.LOR:
			return tt.Or(x, y), true
		case token.XOR:
			return tt.Not(tt.Eq(x, y)), true
		}
		unsupported("bool binop %v", op)
	}
	uns := isUnsigned(xt)
	switch op {
	case token.ADD:
		return tt.Bin(OpAdd, x, y), true
	case token.SUB:
		return tt.Bin(OpSub, x, y), true
	case token.MUL:
		return tt.Bin(OpMul, x, y), true
	case token.QUO, token.REM:
		if !ex.guard(s, tt.Not(tt.Eq(y, tt.BV(0, y.W))), "integer divide by zero", pend) {
			return nil, false
		}
		if uns {
			if op == token.QUO {
				return tt.Bin(OpUDiv, x, y), true
			}
			return tt.Bin(OpURem, x, y), true
		}
		if op == token.QUO {
			return tt.Bin(OpSDiv, x, y), true
		}
		return tt.Bin(OpSRem, x, y), true
	case token.AND:
		return tt.Bin(OpBAnd, x, y), true
	case token.OR:
		return tt.Bin(OpBOr, x, y), true
	case token.XOR:
		return tt.Bin(OpBXor, x, y), true
	case token.AND_NOT:
		return tt.Bin(OpBAnd, x, tt.Un(OpBNot, y)), true
	case token.SHL, token.SHR:
		// shift count: unsigned or signed (negative panics)
		if !isUnsigned(yt) {
			if !ex.guard(s, tt.Cmp(OpSLe, tt.BV(0, y.W), y), "negative shift amount", pend) {
				return nil, false
			}
		}
		var cnt *Term
		big := tt.False
		if y.W > x.W {
			big = tt.Not(tt.Cmp(OpULt, y, tt.BV(uint64(x.W), y.W)))
			cnt = tt.Extract(y, x.W-1, 0)
		} else {
			cnt = tt.ZExt(y, x.W)
		}
		var r *Term
		switch {
		case op == token.SHL:
			r = tt.Bin(OpShl, x, cnt)
			r = tt.Ite(big, tt.BV(0, x.W), r)
		case uns:
			r = tt.Bin(OpLShr, x, cnt)
			r = tt.Ite(big, tt.BV(0, x.W), r)
		default:
			r = tt.Bin(OpAShr, x, cnt)
			r = tt.Ite(big, tt.Bin(OpAShr, x, tt.BV(uint64(x.W-1), x.W)), r)
		}
		return r, true
	case token.LSS:
		if uns {
			return tt.Cmp(OpULt, x, y), true
		}
		return tt.Cmp(OpSLt, x, y), true
	case token.LEQ:
		if uns {
			return tt.Cmp(OpULe, x, y), true
		}
		return tt.Cmp(OpSLe, x, y), true
	case token.GTR:
		if uns {
			return tt.Cmp(OpULt, y, x), true
		}
		return tt.Cmp(OpSLt, y, x), true
	case token.GEQ:
		if uns {
			return tt.Cmp(OpULe, y, x), true
		}
		return tt.Cmp(OpSLe, y, x), true
	}
	unsupported("binop %v", op)
	return nil, false
}

func (ex *Exec) floatBinop(op token.Token, x, y *Term) Value {
	tt := ex.tt
	if x.IsConst() && y.IsConst() && x.W == 64 {
		a, b := math.Float64frombits(x.U64()), math.Float64frombits(y.U64())
		switch op {
		case token.LSS:
			return tt.Bool(a < b)
		case token.LEQ:
			return tt.Bool(a <= b)
		case token.GTR:
			return tt.Bool(a > b)
		case token.GEQ:
			return tt.Bool(a >= b)
		case token.ADD:
			return tt.BV(math.Float64bits(a+b), 64)
		case token.SUB:
			return tt.BV(math.Float64bits(a-b), 64)
		case token.MUL:
			return tt.BV(math.Float64bits(a*b), 64)
		case token.QUO:
			return tt.BV(math.Float64bits(a/b), 64)
		}
	}
	switch op {
	case token.LSS:
		return tt.FP(OpFPLt, 0, x, y)
	case token.LEQ:
		return tt.FP(OpFPLe, 0, x, y)
	case token.GTR:
		return tt.FP(OpFPLt, 0, y, x)
	case token.GEQ:
		return tt.FP(OpFPLe, 0, y, x)
	}
	unsupported("float binop %v on symbolic operands", op)
	return nil
}

func (ex *Exec) floatEq(x, y *Term) *Term {
	if x.IsConst() && y.IsConst() && x.W == 64 {
		return ex.tt.Bool(math.Float64frombits(x.U64()) == math.Float64frombits(y.U64()))
	}
	return ex.tt.FP(OpFPEq, 0, x, y)
}

// strLess is the lexicographic comparison of two concrete-length strings.
func (ex *Exec) strLess(a, b Str, orEq bool) *Term {
	tt := ex.tt
	// result for the suffix starting at i
	n := len(a.B)
	if len(b.B) < n {
		n = len(b.B)
	}
	var res *Term
	switch {
	case len(a.B) < len(b.B):
		res = tt.True
	case len(a.B) > len(b.B):
		res = tt.False
	default:
		res = tt.Bool(orEq)
	}
	for i := n - 1; i >= 0; i-- {
		res = tt.Ite(tt.Cmp(OpULt, a.B[i], b.B[i]), tt.True,
			tt.Ite(tt.Cmp(OpULt, b.B[i], a.B[i]), tt.False, res))
	}
	return res
}

// wholeOf recognises a byte vector that is the in-order big-endian split of one term.
func (ex *Exec) wholeOf(bs []Value) *Term {
	if len(bs) < 2 {
		return nil
	}
	t0, ok := bs[0].(*Term)
	if !ok || t0.Op != OpExtract || t0.W != 8 {
		return nil
	}
	base := t0.Args[0]
	if base.W != 8*len(bs) {
		return nil
	}
	for i, b := range bs {
		t, ok := b.(*Term)
		if !ok || t.Op != OpExtract || t.Args[0] != base || t.A != base.W-1-8*i || t.B != base.W-8-8*i {
			return nil
		}
	}
	return base
}

// valueEq is Go's == on two values of the same type, as a boolean term.
func (ex *Exec) valueEq(s *State, a, b Value) *Term {
	tt := ex.tt
	switch x := a.(type) {
	case *Term:
		y, ok := b.(*Term)
		if !ok {
			unsupported("eq: %T vs %T", a, b)
		}
		return tt.Eq(x, y)
	case Agg:
		y := b.(Agg)
		if wa, wb := ex.wholeOf(x), ex.wholeOf(y); wa != nil && wb != nil {
			return tt.Eq(wa, wb)
		}
		cs := make([]*Term, len(x))
		for i := range x {
			cs[i] = ex.valueEq(s, x[i], y[i])
		}
		return tt.And(cs...)
	case Str:
		y := b.(Str)
		if len(x.B) != len(y.B) {
			return tt.False
		}
		cs := make([]*Term, len(x.B))
		for i := range x.B {
			cs[i] = tt.Eq(x.B[i], y.B[i])
		}
		return tt.And(cs...)
	case Ptr:
		y, ok := b.(Ptr)
		if !ok {
			unsupported("eq: ptr vs %T", b)
		}
		if x.Obj != y.Obj || len(x.Path) != len(y.Path) {
			return tt.False
		}
		cs := []*Term{}
		for i := range x.Path {
			px, py := x.Path[i], y.Path[i]
			if px.Sym == nil && py.Sym == nil {
				if px.Idx != py.Idx {
					return tt.False
				}
				continue
			}
			tx, ty := px.Sym, py.Sym
			if tx == nil {
				tx = tt.BV(uint64(px.Idx), 64)
			}
			if ty == nil {
				ty = tt.BV(uint64(py.Idx), 64)
			}
			cs = append(cs, tt.Eq(tx, ty))
		}
		return tt.And(cs...)
	case Iface:
		y, ok := b.(Iface)
		if !ok {
			unsupported("eq: iface vs %T", b)
		}
		if x.T == nil || y.T == nil {
			return tt.Bool(x.T == nil && y.T == nil)
		}
		if !types.Identical(x.T, y.T) {
			return tt.False
		}
		return ex.valueEq(s, x.V, y.V)
	case Slice:
		// only comparison with nil is legal
		y := b.(Slice)
		if y.Base.Obj == 0 {
			return tt.Bool(x.Base.Obj == 0)
		}
		if x.Base.Obj == 0 {
			return tt.Bool(y.Base.Obj == 0)
		}
		unsupported("slice comparison")
	case MapRef:
		return tt.Bool(x == b.(MapRef))
	case ChanRef:
		return tt.Bool(x == b.(ChanRef))
	case *Closure:
		y := b.(*Closure)
		return tt.Bool((x == nil) == (y == nil))
	case Opaque:
		y, ok := b.(Opaque)
		return tt.Bool(ok && y.ID == x.ID)
	case nil:
		return tt.Bool(b == nil)
	}
	unsupported("eq on %T", a)
	return nil
}

func (ex *Exec) unop(s *State, fr *Frame, x *ssa.UnOp, pend *pending) {
	tt := ex.tt
	v := ex.val(s, fr, x.X)
	switch x.Op {
	case token.MUL:
		p := v.(Ptr)
		if p.Obj == 0 {
			s.end(Panicked, "nil pointer dereference (load) at "+ex.where())
			s.site = ex.where()
			return
		}
		ex.set(fr, x, ex.load(s, p))
	case token.NOT:
		ex.set(fr, x, tt.Not(v.(*Term)))
	case token.SUB:
		t := v.(*Term)
		if isFloat(x.X.Type()) {
			ex.set(fr, x, tt.Bin(OpBXor, t, tt.BV(1<<63, 64)))
		} else {
			ex.set(fr, x, tt.Un(OpNeg, t))
		}
	case token.XOR:
		ex.set(fr, x, tt.Un(OpBNot, v.(*Term)))
	case token.ARROW:
		ch := v.(ChanRef)
		if ch.Obj == 0 {
			unsupported("receive from nil channel")
		}
		cv := s.heap[ch.Obj].(*ChanVal)
		et := x.X.Type().Underlying().(*types.Chan).Elem()
		var rv Value
		okv := tt.True
		if len(cv.Q) > 0 {
			rv = cv.Q[0]
			s.heap[ch.Obj] = &ChanVal{Q: cv.Q[1:], Closed: cv.Closed}
		} else if cv.Closed {
			rv = ex.zero(et)
			okv = tt.False
		} else {
			unsupported("receive from empty channel (would block)")
		}
		if x.CommaOk {
			ex.set(fr, x, Tuple{rv, okv})
		} else {
			ex.set(fr, x, rv)
		}
	default:
		unsupported("unop %v", x.Op)
	}
	fr.ip++
}

func (ex *Exec) convert(s *State, v Value, from, to types.Type, pend *pending) (Value, bool) {
	tt := ex.tt
	fu, tu := from.Underlying(), to.Underlying()
	// string <-> []byte
	if isString(to) {
		switch x := v.(type) {
		case Str:
			return x, true
		case Slice:
			if fs, ok := fu.(*types.Slice); ok {
				if b, ok := fs.Elem().Underlying().(*types.Basic); ok && b.Kind() == types.Int32 {
					unsupported("[]rune to string")
				}
			}
			bs, ok := ex.sliceBytesConcrete(s, x, pend)
			if !ok {
				return nil, false
			}
			return Str{B: bs}, true
		case *Term:
			// integer to string (rune)
			if x.IsConst() {
				return ex.strConst(string(rune(x.S64()))), true
			}
			unsupported("symbolic rune to string")
		}
	}
	if ts, ok := tu.(*types.Slice); ok {
		if sv, ok := v.(Str); ok {
			if b, ok := ts.Elem().Underlying().(*types.Basic); ok && b.Kind() == types.Int32 {
				unsupported("string to []rune")
			}
			arr := make(Agg, len(sv.B))
			for i, t := range sv.B {
				arr[i] = t
			}
			obj := s.alloc(arr)
			n := tt.BV(uint64(len(arr)), 64)
			return Slice{Base: Ptr{Obj: obj}, Off: tt.BV(0, 64), Len: n, Cap: n}, true
		}
		return v, true
	}
	t, ok := v.(*Term)
	if !ok {
		return v, true // pointer/unsafe conversions etc: keep value
	}
	fw, tw := intWidth(from), intWidth(to)
	if fw < 0 || tw < 0 {
		unsupported("convert %v -> %v", from, to)
	}
	ff, tf := isFloat(from), isFloat(to)
	switch {
	case ff && tf:
		if fw == tw {
			return t, true
		}
		if t.IsConst() {
			if fw == 64 {
				return tt.BV(uint64(math.Float32bits(float32(math.Float64frombits(t.U64())))), 32), true
			}
			return tt.BV(math.Float64bits(float64(math.Float32frombits(uint32(t.U64())))), 64), true
		}
		unsupported("symbolic float width conversion")
	case ff && !tf:
		if t.IsConst() && fw == 64 {
			f := math.Float64frombits(t.U64())
			if isUnsigned(to) {
				return tt.BV(uint64(f), tw), true
			}
			return tt.BV(uint64(int64(f)), tw), true
		}
		unsupported("symbolic float to int")
	case !ff && tf:
		if t.IsConst() && tw == 64 {
			if isUnsigned(from) {
				return tt.BV(math.Float64bits(float64(t.U64())), 64), true
			}
			return tt.BV(math.Float64bits(float64(t.S64())), 64), true
		}
		// uninterpreted (consistent per argument): only metrics consume such values
		return tt.UF(fmt.Sprintf("int2float_%d_%d", fw, tw), tw, t), true
	}
	if tw == fw {
		return t, true
	}
	if tw < fw {
		return tt.Extract(t, tw-1, 0), true
	}
	if isUnsigned(from) {
		return tt.ZExt(t, tw), true
	}
	return tt.SExt(t, tw), true
}

// sliceBytesConcrete returns the bytes of a slice after concretising its length.
func (ex *Exec) sliceBytesConcrete(s *State, x Slice, pend *pending) ([]*Term, bool) {
	if x.Base.Obj == 0 {
		return nil, true
	}
	n, ok := ex.concretize(s, x.Len, ex.sliceBound(s, x), pend)
	if !ok {
		return nil, false
	}
	return ex.sliceElems(s, x, n), true
}

// backing returns the backing array of a slice.
func (ex *Exec) backing(s *State, x Slice) Agg {
	if x.Base.Obj == 0 {
		return nil
	}
	v := ex.load(s, x.Base)
	a, ok := v.(Agg)
	if !ok {
		panic(fmt.Sprintf("slice backing is %T", v))
	}
	return a
}

// sliceBound is the largest length the slice can have.
func (ex *Exec) sliceBound(s *State, x Slice) int {
	if x.Base.Obj == 0 {
		return 0
	}
	if x.Len.IsConst() {
		return int(x.Len.U64())
	}
	n := len(ex.backing(s, x))
	if x.Off.IsConst() {
		n -= int(x.Off.U64())
	}
	if x.Cap.IsConst() && int(x.Cap.U64()) < n {
		n = int(x.Cap.U64())
	}
	if n < 0 {
		n = 0
	}
	return n
}

// sliceElems returns elements 0..n-1 of the slice as byte/scalar terms.
func (ex *Exec) sliceElems(s *State, x Slice, n int) []*Term {
	out := make([]*Term, n)
	if n == 0 {
		return out
	}
	arr := ex.backing(s, x)
	for k := 0; k < n; k++ {
		out[k] = ex.elemAt(arr, x.Off, k)
	}
	return out
}

// elemAt reads arr[off+k] for scalar arrays.
func (ex *Exec) elemAt(arr Agg, off *Term, k int) *Term {
	tt := ex.tt
	if off.IsConst() {
		i := int(off.U64()) + k
		if i >= len(arr) {
			return tt.BV(0, arr[0].(*Term).W)
		}
		return arr[i].(*Term)
	}
	pos := tt.Bin(OpAdd, off, tt.BV(uint64(k), 64))
	var res *Term
	for i := len(arr) - 1; i >= k; i-- {
		e := arr[i].(*Term)
		if res == nil {
			res = e
			continue
		}
		res = tt.Ite(tt.Eq(pos, tt.BV(uint64(i), 64)), e, res)
	}
	if res == nil {
		return tt.BV(0, arr[0].(*Term).W)
	}
	return res
}

// elemValAt reads arr[off+k] for arbitrary element values.
func (ex *Exec) elemValAt(arr Agg, off *Term, k int) Value {
	if off.IsConst() {
		return arr[int(off.U64())+k]
	}
	pos := ex.tt.Bin(OpAdd, off, ex.tt.BV(uint64(k), 64))
	return ex.navigate(arr, []PathElem{{Sym: pos}})
}
