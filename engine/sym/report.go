package sym

import (
	"crypto/sha256"
	"os"
	"encoding/hex"
	"fmt"
	"math/big"
	"strings"
)

// wantTerms lists the terms whose model values are needed to rebuild a concrete stream.
func (ex *Exec) wantTerms(s *State) []*Term {
	var out []*Term
	seen := map[int]bool{}
	add := func(t *Term) {
		if t.IsConst() || seen[t.ID] {
			return
		}
		seen[t.ID] = true
		out = append(out, t)
	}
	for _, in := range s.inputs {
		if in.Wide != nil {
			add(in.Wide)
			continue
		}
		for _, t := range in.Terms {
			add(t)
		}
	}
	for _, h := range s.hashes {
		add(h.App)
	}
	return out
}

func realUF(t *Term, args []*big.Int) *big.Int {
	if strings.HasPrefix(t.Name, "sha256_") && !strings.HasPrefix(t.Name, "sha256inv") {
		n := t.Args[0].W / 8
		if t.Name == "sha256_0" {
			n = 0
		}
		b := args[0].Bytes()
		buf := make([]byte, n)
		if n > 0 {
			copy(buf[n-len(b):], b)
		}
		d := sha256.Sum256(buf)
		return new(big.Int).SetBytes(d[:])
	}
	return big.NewInt(0)
}

// streamFromModel turns a solver model into a concrete nondet stream, lifting
// digest-valued inputs that the model equates with hash applications to real SHA-256.
func (ex *Exec) streamFromModel(s *State, model map[int]*big.Int) map[string]interface{} {
	env := map[string]*big.Int{}
	setVar := func(t *Term) {
		if t != nil && t.Op == OpVar {
			if v, ok := model[t.ID]; ok {
				env[t.Name] = v
			} else {
				env[t.Name] = big.NewInt(0)
			}
		}
	}
	for _, in := range s.inputs {
		setVar(in.Wide)
		for _, t := range in.Terms {
			setVar(t)
		}
	}
	// hash lifting: an input digest (or a 32-byte window of an input buffer) that the model
	// equates with a hash application is recomputed as the real SHA-256 of the lifted argument
	byVal := map[string]int{}
	for i, h := range s.hashes {
		if v, ok := model[h.App.ID]; ok {
			byVal[v.Text(16)] = i
		}
	}
	type lift struct {
		wide *Term
		vars []*Term
		app  int
	}
	var lifts []lift
	if len(byVal) > 0 {
		for _, in := range s.inputs {
			if in.Wide != nil {
				if in.Wide.W == 256 {
					if j, ok := byVal[env[in.Wide.Name].Text(16)]; ok {
						lifts = append(lifts, lift{wide: in.Wide, app: j})
					}
				}
				continue
			}
			if len(in.Terms) < 32 {
				continue
			}
			for off := 0; off+32 <= len(in.Terms); off++ {
				v := new(big.Int)
				okAll := true
				for k := 0; k < 32; k++ {
					t := in.Terms[off+k]
					if t.Op != OpVar {
						okAll = false
						break
					}
					v.Lsh(v, 8)
					v.Or(v, env[t.Name])
				}
				if !okAll {
					continue
				}
				if j, ok := byVal[v.Text(16)]; ok {
					lifts = append(lifts, lift{vars: in.Terms[off : off+32], app: j})
					off += 31
				}
			}
		}
	}
	// structural lifts: the path condition itself equates 32 input bytes (or a wide input
	// variable) with the bytes of a hash application -- these are right by construction and
	// do not depend on the model's choice of digest values
	var structural []lift
	{
		appIdx := map[int]int{}
		for i, h := range s.hashes {
			appIdx[h.App.ID] = i
		}
		inputVar := map[string]bool{}
		for _, in := range s.inputs {
			if in.Wide != nil {
				inputVar[in.Wide.Name] = true
			}
			for _, t := range in.Terms {
				if t != nil && t.Op == OpVar {
					inputVar[t.Name] = true
				}
			}
		}
		win := map[int]map[int]*Term{} // app -> byte index (0 = most significant) -> var
		var visit func(t *Term)
		visit = func(t *Term) {
			switch t.Op {
			case OpAnd:
				for _, a := range t.Args {
					visit(a)
				}
			case OpEq:
				a, b := t.Args[0], t.Args[1]
				for k := 0; k < 2; k++ {
					if a.Op == OpVar && inputVar[a.Name] {
						if j, ok := appIdx[b.ID]; ok && a.W == 256 {
							structural = append(structural, lift{wide: a, app: j})
						}
						if b.Op == OpExtract && a.W == 8 && b.B%8 == 0 {
							if j, ok := appIdx[b.Args[0].ID]; ok {
								if win[j] == nil {
									win[j] = map[int]*Term{}
								}
								win[j][31-b.B/8] = a
							}
						}
					}
					a, b = b, a
				}
			}
		}
		for _, t := range s.pc {
			if !s.axiomIDs[t.ID] {
				visit(t)
			}
		}
		for j, m := range win {
			if len(m) != 32 {
				continue
			}
			vs := make([]*Term, 32)
			for k := 0; k < 32; k++ {
				vs[k] = m[k]
			}
			structural = append(structural, lift{vars: vs, app: j})
		}
	}
	// Candidate lift sets: all matches; all matches whose window is not a constant byte
	// pattern (a model is free to give a hash application the value 00..00, which then
	// "matches" every run of zero bytes in an input buffer); none. The first candidate under
	// which the path condition evaluates to true with REAL SHA-256 is used.
	base := map[string]*big.Int{}
	for k, v := range env {
		base[k] = v
	}
	apply := func(ls []lift) map[string]*big.Int {
		e := map[string]*big.Int{}
		for k, v := range base {
			e[k] = v
		}
		for iter := 0; iter <= len(s.hashes)+1 && len(ls) > 0; iter++ {
			changed := false
			memo := map[int]*big.Int{}
			for _, l := range ls {
				h := s.hashes[l.app]
				real := ex.tt.Eval(h.App, e, realUF, memo)
				if l.wide != nil {
					if e[l.wide.Name].Cmp(real) != 0 {
						e[l.wide.Name] = real
						changed = true
					}
					continue
				}
				rb := make([]byte, 32)
				b := real.Bytes()
				copy(rb[32-len(b):], b)
				for k, t := range l.vars {
					nv := big.NewInt(int64(rb[k]))
					if e[t.Name].Cmp(nv) != 0 {
						e[t.Name] = nv
						changed = true
					}
				}
			}
			if !changed {
				break
			}
		}
		return e
	}
	holds := func(e map[string]*big.Int) bool {
		memo := map[int]*big.Int{}
		for _, t := range s.pc {
			if s.axiomIDs[t.ID] {
				continue
			}
			ok := true
			func() {
				defer func() {
					if recover() != nil {
						ok = true // terms the evaluator does not support (FP): not decisive
					}
				}()
				ok = ex.tt.Eval(t, e, realUF, memo).Sign() != 0
			}()
			if !ok {
				return false
			}
		}
		return true
	}
	var nonConst []lift
	for _, l := range lifts {
		if l.wide != nil {
			nonConst = append(nonConst, l)
			continue
		}
		same := true
		for _, t := range l.vars[1:] {
			if base[t.Name].Cmp(base[l.vars[0].Name]) != 0 {
				same = false
			}
		}
		if !same {
			nonConst = append(nonConst, l)
		}
	}
	// a lift is certainly right when the path condition FORCES the window to equal the hash
	// application (one solver query per candidate); coincidental matches are not lifted
	var forced []lift
	if (len(lifts) > 0 || len(structural) > 0) && ex.Concrete == nil {
		for _, l := range lifts {
			if len(lifts) > 64 {
				break
			}
			var w *Term
			if l.wide != nil {
				w = l.wide
			} else {
				w = ex.tt.Concat(append([]*Term(nil), l.vars...)...)
			}
			ne := ex.tt.Not(ex.tt.Eq(w, s.hashes[l.app].App))
			ex.sol.setTimeout(ex.sol.TimeoutMs)
			r, _ := ex.sol.check(s.pc, []*Term{ne}, nil)
			if os.Getenv("SYMGO_LIFTDBG") != "" {
				fmt.Printf("LIFTDBG forced? app=%d t%d wide=%v w=%.60s -> %v\n", l.app, s.hashes[l.app].App.ID, l.wide != nil, w.String(), r)
			}
			if r == Unsat {
				forced = append(forced, l)
			}
		}
		forced = append(forced, structural...)
		e0 := apply(forced)
		h0 := holds(e0)
		if os.Getenv("SYMGO_LIFTDBG") != "" {
			fmt.Printf("LIFTDBG candidates=%d forced=%d holdsForced=%v holdsAll=%v holdsNone=%v\n", len(lifts), len(forced), h0, holds(apply(lifts)), holds(apply(nil)))
			if !h0 {
				memo := map[int]*big.Int{}
				for i, t := range s.pc {
					if s.axiomIDs[t.ID] {
						continue
					}
					func() {
						defer func() { recover() }()
						if ex.tt.Eval(t, e0, realUF, memo).Sign() == 0 {
							fmt.Printf("LIFTDBG false pc[%d] %.300s\n", i, t.String())
							if len(t.Args) > 0 && len(t.Args[0].Args) > 0 && len(t.Args[0].Args[0].Args) > 0 {
								c := t.Args[0].Args[0].Args[0]
								fmt.Printf("LIFTDBG   cond %.1500s\n", c.String())
							}
						}
					}()
				}
			}
		}
		if h0 {
			lifts = forced
		}
	}
	env = apply(lifts)
	if len(lifts) > 0 && !holds(env) {
		if e2 := apply(nonConst); holds(e2) {
			env = e2
		} else if e3 := apply(nil); holds(e3) {
			env = e3
		}
	}
	stream := map[string]interface{}{}
	memo := map[int]*big.Int{}
	for _, in := range s.inputs {
		switch in.Kind {
		case "bytes", "digest":
			bs := make([]byte, len(in.Terms))
			for i, t := range in.Terms {
				bs[i] = byte(ex.tt.Eval(t, env, realUF, memo).Uint64())
			}
			stream[in.Key] = "x:" + hex.EncodeToString(bs)
		default:
			stream[in.Key] = ex.tt.Eval(in.Terms[0], env, realUF, memo).String()
		}
	}
	return stream
}

func (ex *Exec) recordFinding(s *State, kind, label, site string, model map[int]*big.Int) {
	// keep at most 2 findings per (kind,label,site)
	n := 0
	for _, f := range ex.Findings {
		if f.Kind == kind && f.Label == label && f.Site == site {
			n++
		}
	}
	if n >= 2 {
		return
	}
	if model == nil {
		want := ex.wantTerms(s)
		r, m := ex.sol.CheckModel(s.pc, nil, want)
		if r != Sat {
			ex.Stats.Unsupported[fmt.Sprintf("no model for %s path (%v): %s", kind, r, label)]++
			return
		}
		model = m
	}
	f := Finding{Kind: kind, Label: label, Site: site, Harness: ex.harness, Params: ex.params,
		Stream: ex.streamFromModel(s, model), Trace: s.btrace}
	ex.Findings = append(ex.Findings, f)
}

// Summary is a JSON-friendly digest of a job.
func (ex *Exec) Summary() map[string]interface{} {
	wit := map[string]interface{}{}
	for k, w := range ex.Witnesses {
		wit[k] = w.Stream
	}
	var funcs []string
	for f := range ex.Stats.Funcs {
		funcs = append(funcs, f)
	}
	return map[string]interface{}{
		"harness": ex.harness, "params": ex.params,
		"paths": ex.Stats.Paths, "states": ex.Stats.States, "branches": ex.Stats.Branches, "steps": ex.Stats.Steps,
		"done": ex.Stats.PathsDone, "dead": ex.Stats.PathsDead, "skipped": ex.Stats.PathsSkipped,
		"assert_checked": ex.Stats.AssertChecked, "assert_held": ex.Stats.AssertHeld, "assert_failed": ex.Stats.AssertFailed, "assert_unknown": ex.Stats.AssertUnknown,
		"unsupported": ex.Stats.Unsupported, "unwind_fail": ex.Stats.UnwindFails, "bound_fail": ex.Stats.BoundFails,
		"unknown_feas": ex.Stats.UnknownFeas, "merged": ex.Stats.Merged, "budget": ex.Stats.Budget,
		"reach": ex.Stats.ReachCount, "findings": ex.Findings, "witnesses": wit,
		"queries": map[string]int{"sat": ex.sol.NSat, "unsat": ex.sol.NUnsat, "unknown": ex.sol.NUnknown},
		"solver_s": ex.sol.Time.Seconds(), "solver_errors": ex.sol.Errors, "nfuncs": len(funcs),
	}
}

func (ex *Exec) SetSolverLog(w interface{ Write([]byte) (int, error) }) { ex.sol.Log = w }

func (ex *Exec) AddMerge(name string) { ex.merge[name] = true }

// SolverStats returns (unsat, sat, unknown) counts, solver time and error lines.
func (ex *Exec) SolverStats() ([3]int, float64, []string) {
	return [3]int{ex.sol.NUnsat, ex.sol.NSat, ex.sol.NUnknown}, ex.sol.Time.Seconds(), ex.sol.Errors
}

// ConcreteRun executes a harness in concrete mode (every nondet value fixed) and returns
// the trace of assume/assert/reach outcomes, for comparison with a native run.
func ConcreteRun(p *Program, harness string, params map[string]int, conc map[string]*big.Int) (trace []string) {
	lim := DefaultLimits()
	lim.Unwind = 100000
	lim.MaxAlloc = 1 << 16
	ex, err := NewExec(p, harness, params, lim, "z3")
	if err != nil {
		return []string{"engine-error " + err.Error()}
	}
	defer ex.Close()
	ex.Concrete = conc
	if ex.Concrete == nil {
		ex.Concrete = map[string]*big.Int{}
	}
	defer func() {
		if r := recover(); r != nil {
			trace = append(ex.ConcTrace, fmt.Sprintf("engine-panic %v", r))
		}
	}()
	ex.RunHarness()
	tr := ex.ConcTrace
	if BTrace {
		tr = append(tr, "BTRACE:")
		tr = append(tr, ex.lastBTrace...)
	}
	for k, n := range ex.Stats.Unsupported {
		tr = append(tr, fmt.Sprintf("unsupported %s x%d", k, n))
	}
	return tr
}
