package sym

import (
	"bufio"
	"fmt"
	"io"
	"math/big"
	"os"
	"os/exec"
	"strings"
	"time"
)

// Result of a satisfiability query.
type Result int

const (
	Unsat Result = iota
	Sat
	Unknown
)

func (r Result) String() string { return [...]string{"unsat", "sat", "unknown"}[r] }

// Solver wraps one long-lived SMT solver process speaking SMT-LIB2 on stdin/stdout.
type Solver struct {
	Kind      string // z3 | z3-new | cvc5 | cvc5-int
	cmd       *exec.Cmd
	in        io.WriteCloser
	out       *bufio.Reader
	tt        *TermTable
	emitted   map[int]bool
	declVars  map[string]bool
	declUFs   map[string]bool
	stack     []*Term // asserted path-condition prefix, one push level each
	TimeoutMs int
	curTO     int
	FeasMs    int // timeout for feasibility (branch) queries; unknown there is harmless
	Log       io.Writer

	NSat, NUnsat, NUnknown int
	Time                   time.Duration
	Errors                 []string
}

func solverArgv(kind string, timeoutMs int) []string {
	switch kind {
	case "z3":
		return []string{"z3", "-in"}
	case "z3-new":
		return []string{"z3-new", "-in"}
	case "cvc5":
		return []string{"cvc5", "--incremental", "--produce-models", fmt.Sprintf("--tlimit-per=%d", timeoutMs), "--lang=smt2"}
	case "cvc5-int":
		return []string{"cvc5", "--incremental", "--produce-models", "--solve-bv-as-int=sum", fmt.Sprintf("--tlimit-per=%d", timeoutMs), "--lang=smt2"}
	}
	panic("unknown solver " + kind)
}

func NewSolver(kind string, tt *TermTable, timeoutMs int) (*Solver, error) {
	s := &Solver{Kind: kind, tt: tt, TimeoutMs: timeoutMs,
		emitted: map[int]bool{}, declVars: map[string]bool{}, declUFs: map[string]bool{}}
	return s, nil // the process is started lazily, at the first query
}

func (s *Solver) start() error {
	argv := solverArgv(s.Kind, s.TimeoutMs)
	s.cmd = exec.Command(argv[0], argv[1:]...)
	in, err := s.cmd.StdinPipe()
	if err != nil {
		return err
	}
	out, err := s.cmd.StdoutPipe()
	if err != nil {
		return err
	}
	s.cmd.Stderr = os.Stderr
	if err := s.cmd.Start(); err != nil {
		return err
	}
	s.in = in
	s.out = bufio.NewReaderSize(out, 1<<20)
	s.emitted = map[int]bool{}
	s.declVars = map[string]bool{}
	s.declUFs = map[string]bool{}
	s.stack = nil
	s.send("(set-option :global-declarations true)")
	s.send("(set-option :produce-models true)")
	if strings.HasPrefix(s.Kind, "z3") {
		s.send(fmt.Sprintf("(set-option :timeout %d)", s.TimeoutMs))
		s.curTO = s.TimeoutMs
	}
	s.send("(set-logic ALL)")
	return nil
}

func (s *Solver) Close() {
	if s.cmd != nil {
		s.in.Close()
		s.cmd.Process.Kill()
		s.cmd.Wait()
		s.cmd = nil
	}
}

func (s *Solver) restart() {
	s.Close()
	if err := s.start(); err != nil {
		panic(err)
	}
}

func (s *Solver) send(line string) {
	if s.cmd == nil {
		if err := s.start(); err != nil {
			panic(err)
		}
	}
	if s.Log != nil {
		fmt.Fprintln(s.Log, line)
	}
	io.WriteString(s.in, line)
	io.WriteString(s.in, "\n")
}

// sync reads output lines until the marker; returns the lines before it.
func (s *Solver) sync() []string {
	s.send(`(echo "@@DONE@@")`)
	var lines []string
	for {
		l, err := s.out.ReadString('\n')
		l = strings.TrimSpace(l)
		if strings.Contains(l, "@@DONE@@") {
			return lines
		}
		if l != "" {
			lines = append(lines, l)
		}
		if err != nil {
			lines = append(lines, "(error \"solver died: "+err.Error()+"\")")
			return lines
		}
	}
}

// define emits declarations/definitions for t and everything below it.
func (s *Solver) define(t *Term) {
	if s.cmd == nil {
		if err := s.start(); err != nil {
			panic(err)
		}
	}
	if s.emitted[t.ID] {
		return
	}
	// iterative post-order
	type fr struct {
		t *Term
		i int
	}
	st := []fr{{t, 0}}
	for len(st) > 0 {
		f := &st[len(st)-1]
		if s.emitted[f.t.ID] {
			st = st[:len(st)-1]
			continue
		}
		if f.i < len(f.t.Args) {
			a := f.t.Args[f.i]
			f.i++
			if !s.emitted[a.ID] {
				st = append(st, fr{a, 0})
			}
			continue
		}
		x := f.t
		st = st[:len(st)-1]
		s.emitted[x.ID] = true
		switch x.Op {
		case OpConst:
		case OpVar:
			if !s.declVars[x.Name] {
				s.declVars[x.Name] = true
				s.send(fmt.Sprintf("(declare-const %s %s)", x.Name, sortStr(x.W)))
			}
		default:
			if x.Op == OpUF && !s.declUFs[x.Name] {
				s.declUFs[x.Name] = true
				sig := s.tt.UFs[x.Name]
				as := make([]string, len(sig.args))
				for i, w := range sig.args {
					as[i] = sortStr(w)
				}
				s.send(fmt.Sprintf("(declare-fun %s (%s) %s)", x.Name, strings.Join(as, " "), sortStr(sig.res)))
			}
			s.send(fmt.Sprintf("(define-fun t%d () %s %s)", x.ID, sortStr(x.W), x.body()))
		}
	}
}

// align makes the solver's assertion stack equal to pc.
func (s *Solver) align(pc []*Term) {
	n := 0
	for n < len(pc) && n < len(s.stack) && pc[n] == s.stack[n] {
		n++
	}
	if len(s.stack) > n {
		s.send(fmt.Sprintf("(pop %d)", len(s.stack)-n))
		s.stack = s.stack[:n]
	}
	for _, t := range pc[n:] {
		s.define(t)
		s.send("(push 1)")
		s.send(fmt.Sprintf("(assert %s)", t.ref()))
		s.stack = append(s.stack, t)
	}
}

// Check decides satisfiability of pc ∧ extra (feasibility query: short timeout).
func (s *Solver) Check(pc []*Term, extra ...*Term) Result {
	s.setTimeout(s.FeasMs)
	r, _ := s.check(pc, extra, nil)
	return r
}

func (s *Solver) setTimeout(ms int) {
	if ms <= 0 || ms > s.TimeoutMs {
		ms = s.TimeoutMs
	}
	if !strings.HasPrefix(s.Kind, "z3") {
		return
	}
	if s.cmd == nil {
		if err := s.start(); err != nil {
			panic(err)
		}
	}
	if s.curTO != ms {
		s.send(fmt.Sprintf("(set-option :timeout %d)", ms))
		s.curTO = ms
	}
}

// CheckModel is Check plus, when sat, the values of the requested terms.
func (s *Solver) CheckModel(pc []*Term, extra []*Term, want []*Term) (Result, map[int]*big.Int) {
	s.setTimeout(s.TimeoutMs)
	return s.check(pc, extra, want)
}

func (s *Solver) check(pc []*Term, extra []*Term, want []*Term) (Result, map[int]*big.Int) {
	t0 := time.Now()
	defer func() { s.Time += time.Since(t0) }()
	for _, e := range extra {
		if e.IsFalse() {
			s.NUnsat++
			return Unsat, nil
		}
	}
	s.align(pc)
	for _, e := range extra {
		s.define(e)
	}
	for _, w := range want {
		s.define(w)
	}
	s.send("(push 1)")
	for _, e := range extra {
		s.send(fmt.Sprintf("(assert %s)", e.ref()))
	}
	s.send("(check-sat)")
	tq := time.Now()
	lines := s.sync()
	if s.Log != nil {
		fmt.Fprintf(s.Log, "; -> %v in %dms\n", lines, time.Since(tq).Milliseconds())
	}
	res := Unknown
	bad := false
	for _, l := range lines {
		switch {
		case l == "sat":
			res = Sat
		case l == "unsat":
			res = Unsat
		case l == "unknown" || strings.HasPrefix(l, "timeout"):
			res = Unknown
		case strings.HasPrefix(l, "(error") || strings.Contains(l, "error"):
			bad = true
			s.Errors = append(s.Errors, l)
		}
	}
	if bad {
		res = Unknown
	}
	var model map[int]*big.Int
	if res == Sat && len(want) > 0 {
		model = map[int]*big.Int{}
		// chunk get-value requests
		for i := 0; i < len(want); i += 200 {
			j := i + 200
			if j > len(want) {
				j = len(want)
			}
			var sb strings.Builder
			sb.WriteString("(get-value (")
			for _, w := range want[i:j] {
				sb.WriteString(w.ref())
				sb.WriteString(" ")
			}
			sb.WriteString("))")
			s.send(sb.String())
			out := strings.Join(s.sync(), " ")
			vals := parseValues(out)
			if len(vals) != j-i {
				s.Errors = append(s.Errors, fmt.Sprintf("get-value: expected %d values, got %d: %.200s", j-i, len(vals), out))
				res = Unknown
				model = nil
				break
			}
			for k, w := range want[i:j] {
				model[w.ID] = vals[k]
			}
		}
	}
	s.send("(pop 1)")
	switch res {
	case Sat:
		s.NSat++
	case Unsat:
		s.NUnsat++
	default:
		s.NUnknown++
		if bad {
			// solver state may be inconsistent after an error; start afresh
			s.restart()
		}
	}
	return res, model
}

// parseValues extracts the value literals from a get-value response
// ((t1 #x..) (t2 #b..) (t3 true) ...), in order.
func parseValues(s string) []*big.Int {
	var out []*big.Int
	// tokenise
	s = strings.ReplaceAll(s, "(", " ( ")
	s = strings.ReplaceAll(s, ")", " ) ")
	toks := strings.Fields(s)
	depth := 0
	var cur []string
	for _, t := range toks {
		switch t {
		case "(":
			depth++
			if depth == 2 {
				cur = nil
			} else if depth > 2 {
				cur = append(cur, t)
			}
		case ")":
			if depth == 2 {
				// cur = [name-tokens..., value-tokens...]; value is the last literal
				out = append(out, litValue(cur))
			} else if depth > 2 {
				cur = append(cur, t)
			}
			depth--
		default:
			if depth >= 2 {
				cur = append(cur, t)
			}
		}
	}
	return out
}

func litValue(toks []string) *big.Int {
	if len(toks) == 0 {
		return big.NewInt(0)
	}
	// handle (_ bvN w)
	n := len(toks)
	if n >= 5 && toks[n-1] == ")" && toks[n-5] == "(" && toks[n-4] == "_" && strings.HasPrefix(toks[n-3], "bv") {
		v, _ := new(big.Int).SetString(toks[n-3][2:], 10)
		return v
	}
	l := toks[n-1]
	switch {
	case l == "true":
		return big.NewInt(1)
	case l == "false":
		return big.NewInt(0)
	case strings.HasPrefix(l, "#x"):
		v, _ := new(big.Int).SetString(l[2:], 16)
		return v
	case strings.HasPrefix(l, "#b"):
		v, _ := new(big.Int).SetString(l[2:], 2)
		return v
	}
	return big.NewInt(0)
}
