package sym

import (
	"fmt"
	"go/types"

	"golang.org/x/tools/go/ssa"
)

// Status of a path.
type Status int

const (
	Running Status = iota
	Done           // harness returned
	Dead           // assumption false / infeasible
	Panicked
	AssertFailed
	Unsupported
	UnwindFail
	BoundFail
	Skipped // harness called verifrt.Skip (shape not applicable)
)

type deferred struct {
	fn   Value
	args []Value
	// invoke form
	recv   Value
	method *types.Func
}

// Frame is one activation record.
type Frame struct {
	fn     *ssa.Function
	regs   []Value
	block  *ssa.BasicBlock
	prev   *ssa.BasicBlock
	ip     int
	defers []deferred
	visits map[int]int
	// where the result goes in the caller (nil: discarded)
	retTo ssa.Value
	// running defers after an explicit return
	inDefers bool
}

// Input is one nondeterministic input of the path.
type Input struct {
	Key   string  // name#seq
	Kind  string  // u64,i64,int,byte,bool,bytes,digest
	Terms []*Term // one term for scalars, n byte terms for bytes
	Wide  *Term   // digest inputs: the single wide variable the bytes are slices of
}

// Event is a recorded trace event.
type Event struct {
	Name string
	Args []Value
}

// HashApp records one application of the hash UF on the path.
type HashApp struct {
	App *Term   // the 256-bit UF application
	In  []*Term // input bytes
}

// State is one symbolic path.
type State struct {
	id      int
	heap    map[int]interface{}
	nextObj int
	frames  []*Frame
	pc      []*Term
	pcSet   map[int]bool
	globals map[*ssa.Global]int
	status  Status
	why     string
	site    string

	seq      map[string]int
	inputs   []Input
	events   []Event
	hashes   []HashApp
	stubs    map[string]Value
	steps    int
	depthCap int

	// merge regions
	mergeBase int  // objects with id < mergeBase are "old"
	wroteOld  bool // a store hit an old object inside the region
	ret       Value
	retSet    bool
	opaqueSeq int
	reachSeen map[string]bool
	pinned    map[int]uint64
	btrace    []string
	files     map[string]bool // names of existing files (copy-on-write)
	locks     map[string]int  // writer-lock depth per mutex (copy-on-write)
	osFiles   map[int]osFile  // *os.File objects created by verifrt.NewFile: content object, size, position (copy-on-write)
	axiomIDs  map[int]bool // pc entries that are hash-model axioms (not evaluated when validating a lifted stream)
}

func (s *State) clone(newID int) *State {
	c := *s
	c.id = newID
	c.heap = make(map[int]interface{}, len(s.heap)+8)
	for k, v := range s.heap {
		c.heap[k] = v
	}
	c.frames = make([]*Frame, len(s.frames))
	for i, f := range s.frames {
		nf := *f
		nf.regs = make([]Value, len(f.regs))
		copy(nf.regs, f.regs)
		if len(f.defers) > 0 {
			nf.defers = append([]deferred(nil), f.defers...)
		}
		nf.visits = make(map[int]int, len(f.visits))
		for k, v := range f.visits {
			nf.visits[k] = v
		}
		c.frames[i] = &nf
	}
	c.pc = append([]*Term(nil), s.pc...)
	c.pcSet = make(map[int]bool, len(s.pcSet)+4)
	for k, v := range s.pcSet {
		c.pcSet[k] = v
	}
	c.globals = make(map[*ssa.Global]int, len(s.globals))
	for k, v := range s.globals {
		c.globals[k] = v
	}
	c.seq = make(map[string]int, len(s.seq))
	for k, v := range s.seq {
		c.seq[k] = v
	}
	c.inputs = append([]Input(nil), s.inputs...)
	c.events = append([]Event(nil), s.events...)
	c.hashes = append([]HashApp(nil), s.hashes...)
	c.stubs = make(map[string]Value, len(s.stubs))
	for k, v := range s.stubs {
		c.stubs[k] = v
	}
	if s.pinned != nil {
		c.pinned = make(map[int]uint64, len(s.pinned))
		for k, v := range s.pinned {
			c.pinned[k] = v
		}
	}
	if s.btrace != nil {
		c.btrace = append([]string(nil), s.btrace...)
	}
	if s.axiomIDs != nil {
		c.axiomIDs = make(map[int]bool, len(s.axiomIDs))
		for k, v := range s.axiomIDs {
			c.axiomIDs[k] = v
		}
	}
	c.reachSeen = make(map[string]bool, len(s.reachSeen))
	for k, v := range s.reachSeen {
		c.reachSeen[k] = v
	}
	return &c
}

func (s *State) top() *Frame { return s.frames[len(s.frames)-1] }

func (s *State) addPC(t *Term) {
	if t.IsTrue() {
		return
	}
	s.pc = append(s.pc, t)
	if t.Op == OpNot {
		s.pcSet[t.Args[0].ID] = false
	} else {
		s.pcSet[t.ID] = true
	}
	if t.Op == OpAnd {
		for _, a := range t.Args {
			if a.Op == OpNot {
				s.pcSet[a.Args[0].ID] = false
			} else {
				s.pcSet[a.ID] = true
			}
		}
	}
}

func (s *State) alloc(v interface{}) int {
	s.nextObj++
	s.heap[s.nextObj] = v
	return s.nextObj
}

func (s *State) end(st Status, why string) {
	s.status = st
	s.why = why
}

// navigate returns the sub-value of v at path (symbolic elements become ite chains).
func (ex *Exec) navigate(v Value, path []PathElem) Value {
	for i, pe := range path {
		agg, ok := v.(Agg)
		if !ok {
			panic(fmt.Sprintf("navigate: not an aggregate: %s", describe(v)))
		}
		if pe.Sym == nil {
			if pe.Idx >= len(agg) {
				panic(fmt.Sprintf("navigate: index %d out of range %d", pe.Idx, len(agg)))
			}
			v = agg[pe.Idx]
			continue
		}
		// symbolic index: merge over all elements
		rest := path[i+1:]
		var res Value
		for k := len(agg) - 1; k >= 0; k-- {
			ek := ex.navigate(agg[k], rest)
			if res == nil {
				res = ek
				continue
			}
			c := ex.tt.Eq(pe.Sym, ex.tt.BV(uint64(k), 64))
			res = ex.mergeVal(c, ek, res)
		}
		if res == nil {
			panic("navigate: symbolic index into empty array")
		}
		return res
	}
	return v
}

// update returns v with the sub-value at path replaced by nv.
func (ex *Exec) update(v Value, path []PathElem, nv Value) Value {
	if len(path) == 0 {
		return nv
	}
	agg, ok := v.(Agg)
	if !ok {
		panic(fmt.Sprintf("update: not an aggregate: %s", describe(v)))
	}
	pe := path[0]
	out := make(Agg, len(agg))
	copy(out, agg)
	if pe.Sym == nil {
		out[pe.Idx] = ex.update(agg[pe.Idx], path[1:], nv)
		return out
	}
	for k := range agg {
		c := ex.tt.Eq(pe.Sym, ex.tt.BV(uint64(k), 64))
		if c.IsFalse() {
			continue
		}
		upd := ex.update(agg[k], path[1:], nv)
		out[k] = ex.mergeVal(c, upd, agg[k])
	}
	return out
}

func (ex *Exec) load(s *State, p Ptr) Value {
	o, ok := s.heap[p.Obj]
	if !ok {
		panic(fmt.Sprintf("load: no object %d", p.Obj))
	}
	return ex.navigate(o.(Value), p.Path)
}

func (ex *Exec) store(s *State, p Ptr, v Value) {
	o, ok := s.heap[p.Obj]
	if !ok {
		panic(fmt.Sprintf("store: no object %d", p.Obj))
	}
	if p.Obj < s.mergeBase {
		s.wroteOld = true
	}
	s.heap[p.Obj] = ex.update(o.(Value), p.Path, v)
}

// mergeVal builds ite(c, a, b) structurally.
func (ex *Exec) mergeVal(c *Term, a, b Value) Value {
	if c.IsTrue() {
		return a
	}
	if c.IsFalse() {
		return b
	}
	switch x := a.(type) {
	case *Term:
		y, ok := b.(*Term)
		if !ok {
			panic("mergeVal: shape mismatch (term)")
		}
		return ex.tt.Ite(c, x, y)
	case Agg:
		y, ok := b.(Agg)
		if !ok || len(x) != len(y) {
			panic("mergeVal: shape mismatch (agg)")
		}
		out := make(Agg, len(x))
		for i := range x {
			out[i] = ex.mergeVal(c, x[i], y[i])
		}
		return out
	case Str:
		y, ok := b.(Str)
		if !ok || len(x.B) != len(y.B) {
			panic(errUnmergeable)
		}
		out := Str{B: make([]*Term, len(x.B))}
		for i := range x.B {
			out.B[i] = ex.tt.Ite(c, x.B[i], y.B[i])
		}
		return out
	case Slice:
		y, ok := b.(Slice)
		if !ok || x.Base.Obj != y.Base.Obj || !samePath(x.Base.Path, y.Base.Path) {
			panic(errUnmergeable)
		}
		return Slice{Base: x.Base, Off: ex.tt.Ite(c, x.Off, y.Off), Len: ex.tt.Ite(c, x.Len, y.Len), Cap: ex.tt.Ite(c, x.Cap, y.Cap)}
	case Ptr:
		y, ok := b.(Ptr)
		if !ok || x.Obj != y.Obj || len(x.Path) != len(y.Path) {
			panic(errUnmergeable)
		}
		out := Ptr{Obj: x.Obj, Path: make([]PathElem, len(x.Path))}
		for i := range x.Path {
			px, py := x.Path[i], y.Path[i]
			if px == py {
				out.Path[i] = px
				continue
			}
			tx, ty := px.Sym, py.Sym
			if tx == nil {
				tx = ex.tt.BV(uint64(px.Idx), 64)
			}
			if ty == nil {
				ty = ex.tt.BV(uint64(py.Idx), 64)
			}
			out.Path[i] = PathElem{Sym: ex.tt.Ite(c, tx, ty)}
		}
		return out
	case Iface:
		y, ok := b.(Iface)
		if !ok {
			panic(errUnmergeable)
		}
		if x.T == nil && y.T == nil {
			return x
		}
		if x.T == nil || y.T == nil || !types.Identical(x.T, y.T) {
			panic(errUnmergeable)
		}
		return Iface{T: x.T, V: ex.mergeVal(c, x.V, y.V)}
	case MapRef:
		if y, ok := b.(MapRef); ok && y == x {
			return x
		}
	case ChanRef:
		if y, ok := b.(ChanRef); ok && y == x {
			return x
		}
	case *Closure:
		if y, ok := b.(*Closure); ok && y == x {
			return x
		}
		if y, ok := b.(*Closure); ok && x != nil && y != nil && x.Fn == y.Fn && len(x.Bindings) == len(y.Bindings) {
			nb := make([]Value, len(x.Bindings))
			for i := range nb {
				nb[i] = ex.mergeVal(c, x.Bindings[i], y.Bindings[i])
			}
			return &Closure{Fn: x.Fn, Bindings: nb}
		}
	case Tuple:
		y, ok := b.(Tuple)
		if ok && len(x) == len(y) {
			out := make(Tuple, len(x))
			for i := range x {
				out[i] = ex.mergeVal(c, x[i], y[i])
			}
			return out
		}
	case Opaque:
		if y, ok := b.(Opaque); ok && y.ID == x.ID {
			return x
		}
	case nil:
		if b == nil {
			return nil
		}
	}
	panic(errUnmergeable)
}

type unmergeable struct{}

var errUnmergeable = unmergeable{}

// tryMerge is mergeVal that reports failure instead of panicking.
func (ex *Exec) tryMerge(c *Term, a, b Value) (v Value, ok bool) {
	defer func() {
		if r := recover(); r != nil {
			if _, is := r.(unmergeable); is {
				v, ok = nil, false
				return
			}
			if msg, is := r.(string); is && len(msg) > 8 && msg[:8] == "mergeVal" {
				v, ok = nil, false
				return
			}
			panic(r)
		}
	}()
	return ex.mergeVal(c, a, b), true
}

func (s *State) touchFile(p string) {
	n := make(map[string]bool, len(s.files)+1)
	for k, v := range s.files {
		n[k] = v
	}
	n[p] = true
	s.files = n
}

func (s *State) removeFile(p string) {
	if !s.files[p] {
		return
	}
	n := make(map[string]bool, len(s.files))
	for k, v := range s.files {
		if k != p {
			n[k] = v
		}
	}
	s.files = n
}

// osFile is the executor's model of an *os.File: a growable byte array and a position.
type osFile struct {
	content int // heap object holding the Agg of bytes (capacity), of which size are valid
	size    int
	pos     int
}

func (s *State) setOSFile(obj int, f osFile) {
	n := make(map[int]osFile, len(s.osFiles)+1)
	for k, v := range s.osFiles {
		n[k] = v
	}
	n[obj] = f
	s.osFiles = n
}

func (s *State) addLock(k string, d int) {
	n := make(map[string]int, len(s.locks)+1)
	for kk, v := range s.locks {
		n[kk] = v
	}
	n[k] += d
	s.locks = n
}
