// Package sym is a bounded symbolic executor for Go SSA that emits SMT-LIB2.
package sym

import (
	"fmt"
	"math/big"
	"strings"
)

// Op is a term constructor.
type Op uint8

const (
	OpConst Op = iota
	OpVar
	OpNot
	OpAnd
	OpOr
	OpIte
	OpEq
	OpAdd
	OpSub
	OpMul
	OpUDiv
	OpURem
	OpSDiv
	OpSRem
	OpBAnd
	OpBOr
	OpBXor
	OpBNot
	OpNeg
	OpShl
	OpLShr
	OpAShr
	OpULt
	OpULe
	OpSLt
	OpSLe
	OpConcat
	OpExtract // a=hi b=lo
	OpZExt    // to width W
	OpSExt
	OpUF // name, args
	OpFPLt
	OpFPLe
	OpFPEq
	OpFPIsNaN
	OpFPAdd
	OpFPSub
	OpFPMul
	OpFPDiv
	OpFPNeg
	OpFPFromSInt // int64 -> float64 bits
	OpFPToSInt   // float64 bits -> int64 (RTZ)
)

var opNames = map[Op]string{
	OpNot: "not", OpAnd: "and", OpOr: "or", OpIte: "ite", OpEq: "=",
	OpAdd: "bvadd", OpSub: "bvsub", OpMul: "bvmul", OpUDiv: "bvudiv", OpURem: "bvurem",
	OpSDiv: "bvsdiv", OpSRem: "bvsrem", OpBAnd: "bvand", OpBOr: "bvor", OpBXor: "bvxor",
	OpBNot: "bvnot", OpNeg: "bvneg", OpShl: "bvshl", OpLShr: "bvlshr", OpAShr: "bvashr",
	OpULt: "bvult", OpULe: "bvule", OpSLt: "bvslt", OpSLe: "bvsle", OpConcat: "concat",
}

// Term is a hash-consed SMT term. W==0 means Bool, otherwise a bit-vector of width W.
type Term struct {
	ID   int
	Op   Op
	W    int
	Args []*Term
	A, B int      // extract hi/lo
	Val  *big.Int // constants (bool: 0/1)
	Name string   // var / uf name
	tt   *TermTable
}

// TermTable owns all terms of one job (single-threaded).
type TermTable struct {
	byKey  map[string]*Term
	nextID int
	True   *Term
	False  *Term
	Vars   []*Term
	UFs    map[string]ufSig
	ufOrd  []string
}

type ufSig struct {
	args []int
	res  int
}

func NewTermTable() *TermTable {
	tt := &TermTable{byKey: map[string]*Term{}, UFs: map[string]ufSig{}}
	tt.True = tt.mk(&Term{Op: OpConst, W: 0, Val: big.NewInt(1)})
	tt.False = tt.mk(&Term{Op: OpConst, W: 0, Val: big.NewInt(0)})
	return tt
}

func (tt *TermTable) mk(t *Term) *Term {
	var sb strings.Builder
	fmt.Fprintf(&sb, "%d:%d:%d:%d:%s:", t.Op, t.W, t.A, t.B, t.Name)
	if t.Val != nil {
		sb.WriteString(t.Val.Text(16))
	}
	for _, a := range t.Args {
		fmt.Fprintf(&sb, ",%d", a.ID)
	}
	k := sb.String()
	if e, ok := tt.byKey[k]; ok {
		return e
	}
	tt.nextID++
	t.ID = tt.nextID
	t.tt = tt
	tt.byKey[k] = t
	return t
}

func (t *Term) IsConst() bool { return t.Op == OpConst }
func (t *Term) IsTrue() bool  { return t.Op == OpConst && t.W == 0 && t.Val.Sign() != 0 }
func (t *Term) IsFalse() bool { return t.Op == OpConst && t.W == 0 && t.Val.Sign() == 0 }

// U64 returns the constant value (low 64 bits).
func (t *Term) U64() uint64 { return t.Val.Uint64() }

// S64 returns the constant as a signed value of width W (W<=64).
func (t *Term) S64() int64 {
	v := t.Val.Uint64()
	if t.W < 64 && t.W > 0 {
		if v&(1<<(uint(t.W)-1)) != 0 {
			v |= ^uint64(0) << uint(t.W)
		}
	}
	return int64(v)
}

func mask(w int) *big.Int {
	m := new(big.Int).Lsh(big.NewInt(1), uint(w))
	return m.Sub(m, big.NewInt(1))
}

func (tt *TermTable) Bool(b bool) *Term {
	if b {
		return tt.True
	}
	return tt.False
}

func (tt *TermTable) BV(v uint64, w int) *Term {
	b := new(big.Int).SetUint64(v)
	if w < 64 {
		b.And(b, mask(w))
	}
	return tt.mk(&Term{Op: OpConst, W: w, Val: b})
}

func (tt *TermTable) BVBig(v *big.Int, w int) *Term {
	b := new(big.Int).And(v, mask(w))
	return tt.mk(&Term{Op: OpConst, W: w, Val: b})
}

func (tt *TermTable) Var(name string, w int) *Term {
	k := fmt.Sprintf("%d:%d:%d:%d:%s:", OpVar, w, 0, 0, name)
	if e, ok := tt.byKey[k]; ok {
		return e
	}
	t := tt.mk(&Term{Op: OpVar, W: w, Name: name})
	tt.Vars = append(tt.Vars, t)
	return t
}

func (tt *TermTable) Not(a *Term) *Term {
	if a.IsConst() {
		return tt.Bool(a.IsFalse())
	}
	if a.Op == OpNot {
		return a.Args[0]
	}
	return tt.mk(&Term{Op: OpNot, Args: []*Term{a}})
}

func (tt *TermTable) And(xs ...*Term) *Term {
	var out []*Term
	seen := map[int]bool{}
	for _, x := range xs {
		if x.IsTrue() {
			continue
		}
		if x.IsFalse() {
			return tt.False
		}
		var parts []*Term
		if x.Op == OpAnd {
			parts = x.Args
		} else {
			parts = []*Term{x}
		}
		for _, p := range parts {
			if seen[p.ID] {
				continue
			}
			seen[p.ID] = true
			out = append(out, p)
		}
	}
	for _, p := range out {
		if p.Op == OpNot && seen[p.Args[0].ID] {
			return tt.False
		}
	}
	if len(out) == 0 {
		return tt.True
	}
	if len(out) == 1 {
		return out[0]
	}
	return tt.mk(&Term{Op: OpAnd, Args: out})
}

func (tt *TermTable) Or(xs ...*Term) *Term {
	var out []*Term
	seen := map[int]bool{}
	for _, x := range xs {
		if x.IsFalse() {
			continue
		}
		if x.IsTrue() {
			return tt.True
		}
		var parts []*Term
		if x.Op == OpOr {
			parts = x.Args
		} else {
			parts = []*Term{x}
		}
		for _, p := range parts {
			if seen[p.ID] {
				continue
			}
			seen[p.ID] = true
			out = append(out, p)
		}
	}
	for _, p := range out {
		if p.Op == OpNot && seen[p.Args[0].ID] {
			return tt.True
		}
	}
	if len(out) == 0 {
		return tt.False
	}
	if len(out) == 1 {
		return out[0]
	}
	return tt.mk(&Term{Op: OpOr, Args: out})
}

func (tt *TermTable) Implies(a, b *Term) *Term { return tt.Or(tt.Not(a), b) }

func (tt *TermTable) Ite(c, a, b *Term) *Term {
	if c.IsTrue() {
		return a
	}
	if c.IsFalse() {
		return b
	}
	if a == b {
		return a
	}
	if a.W != b.W {
		panic(fmt.Sprintf("ite width mismatch %d %d", a.W, b.W))
	}
	if a.W == 0 {
		if a.IsTrue() && b.IsFalse() {
			return c
		}
		if a.IsFalse() && b.IsTrue() {
			return tt.Not(c)
		}
		if a.IsTrue() {
			return tt.Or(c, b)
		}
		if a.IsFalse() {
			return tt.And(tt.Not(c), b)
		}
		if b.IsTrue() {
			return tt.Or(tt.Not(c), a)
		}
		if b.IsFalse() {
			return tt.And(c, a)
		}
	}
	if c.Op == OpNot {
		return tt.Ite(c.Args[0], b, a)
	}
	// ite(c, x, ite(c, y, z)) = ite(c, x, z)
	if b.Op == OpIte && b.Args[0] == c {
		return tt.Ite(c, a, b.Args[2])
	}
	if a.Op == OpIte && a.Args[0] == c {
		return tt.Ite(c, a.Args[1], b)
	}
	return tt.mk(&Term{Op: OpIte, W: a.W, Args: []*Term{c, a, b}})
}

func (tt *TermTable) Eq(a, b *Term) *Term {
	if a == b {
		return tt.True
	}
	if a.W != b.W {
		panic(fmt.Sprintf("eq width mismatch %d %d (%s vs %s)", a.W, b.W, a, b))
	}
	if a.IsConst() && b.IsConst() {
		return tt.Bool(a.Val.Cmp(b.Val) == 0)
	}
	if a.W == 0 {
		if a.IsTrue() {
			return b
		}
		if b.IsTrue() {
			return a
		}
		if a.IsFalse() {
			return tt.Not(b)
		}
		if b.IsFalse() {
			return tt.Not(a)
		}
	}
	// eq(ite(c,k1,k2), k) with constants
	if b.IsConst() && a.Op == OpIte && a.Args[1].IsConst() && a.Args[2].IsConst() {
		return tt.Ite(a.Args[0], tt.Eq(a.Args[1], b), tt.Eq(a.Args[2], b))
	}
	if a.IsConst() && b.Op == OpIte && b.Args[1].IsConst() && b.Args[2].IsConst() {
		return tt.Eq(b, a)
	}
	// zext(x) == const
	if b.IsConst() && a.Op == OpZExt {
		x := a.Args[0]
		if b.Val.BitLen() > x.W {
			return tt.False
		}
		return tt.Eq(x, tt.BVBig(b.Val, x.W))
	}
	if a.IsConst() && b.Op == OpZExt {
		return tt.Eq(b, a)
	}
	// concat vs concat with same split
	if a.Op == OpConcat && b.Op == OpConcat && len(a.Args) == len(b.Args) {
		same := true
		for i := range a.Args {
			if a.Args[i].W != b.Args[i].W {
				same = false
				break
			}
		}
		if same {
			cs := make([]*Term, len(a.Args))
			for i := range a.Args {
				cs[i] = tt.Eq(a.Args[i], b.Args[i])
			}
			return tt.And(cs...)
		}
	}
	if a.ID > b.ID {
		a, b = b, a
	}
	return tt.mk(&Term{Op: OpEq, Args: []*Term{a, b}})
}

func (tt *TermTable) binFold(op Op, a, b *Term) *Term {
	w := a.W
	m := mask(w)
	x, y := a.Val, b.Val
	r := new(big.Int)
	sx := func(v *big.Int) *big.Int {
		s := new(big.Int).Set(v)
		if v.Bit(w-1) == 1 {
			s.Sub(s, new(big.Int).Lsh(big.NewInt(1), uint(w)))
		}
		return s
	}
	switch op {
	case OpAdd:
		r.Add(x, y)
	case OpSub:
		r.Sub(x, y)
	case OpMul:
		r.Mul(x, y)
	case OpUDiv:
		if y.Sign() == 0 {
			return tt.BVBig(m, w)
		}
		r.Div(x, y)
	case OpURem:
		if y.Sign() == 0 {
			return a
		}
		r.Mod(x, y)
	case OpSDiv:
		if y.Sign() == 0 {
			return nil
		}
		r.Quo(sx(x), sx(y))
	case OpSRem:
		if y.Sign() == 0 {
			return nil
		}
		r.Rem(sx(x), sx(y))
	case OpBAnd:
		r.And(x, y)
	case OpBOr:
		r.Or(x, y)
	case OpBXor:
		r.Xor(x, y)
	case OpShl:
		if y.Cmp(big.NewInt(int64(w))) >= 0 {
			return tt.BV(0, w)
		}
		r.Lsh(x, uint(y.Uint64()))
	case OpLShr:
		if y.Cmp(big.NewInt(int64(w))) >= 0 {
			return tt.BV(0, w)
		}
		r.Rsh(x, uint(y.Uint64()))
	case OpAShr:
		s := sx(x)
		sh := uint(w)
		if y.Cmp(big.NewInt(int64(w))) < 0 {
			sh = uint(y.Uint64())
		}
		r.Rsh(s, sh)
	default:
		return nil
	}
	r.And(r, m) // big.Int And on negative uses two's complement semantics
	return tt.BVBig(r, w)
}

func (tt *TermTable) Bin(op Op, a, b *Term) *Term {
	if a.W != b.W {
		panic(fmt.Sprintf("binop %v width mismatch %d %d", opNames[op], a.W, b.W))
	}
	w := a.W
	if a.IsConst() && b.IsConst() {
		if r := tt.binFold(op, a, b); r != nil {
			return r
		}
	}
	zero := func(t *Term) bool { return t.IsConst() && t.Val.Sign() == 0 }
	// division / remainder by a constant power of two: shifts and masks
	if b.IsConst() && (op == OpUDiv || op == OpURem || op == OpSDiv || op == OpSRem) && b.Val.Sign() > 0 &&
		b.Val.BitLen() < w && new(big.Int).And(b.Val, new(big.Int).Sub(b.Val, big.NewInt(1))).Sign() == 0 {
		k := b.Val.BitLen() - 1
		if k == 0 {
			if op == OpUDiv || op == OpSDiv {
				return a
			}
			return tt.BV(0, w)
		}
		kk := tt.BV(uint64(k), w)
		switch op {
		case OpUDiv:
			return tt.Bin(OpLShr, a, kk)
		case OpURem:
			return tt.ZExt(tt.Extract(a, k-1, 0), w)
		case OpSDiv, OpSRem:
			sign := tt.Bin(OpAShr, a, tt.BV(uint64(w-1), w))
			bias := tt.Bin(OpLShr, sign, tt.BV(uint64(w-k), w))
			q := tt.Bin(OpAShr, tt.Bin(OpAdd, a, bias), kk)
			if op == OpSDiv {
				return q
			}
			return tt.Bin(OpSub, a, tt.Bin(OpShl, q, kk))
		}
	}
	switch op {
	case OpAdd:
		if zero(a) {
			return b
		}
		if zero(b) {
			return a
		}
		// (x + c1) + c2
		if b.IsConst() && a.Op == OpAdd && a.Args[1].IsConst() {
			return tt.Bin(OpAdd, a.Args[0], tt.binFold(OpAdd, a.Args[1], b))
		}
		if a.IsConst() && !b.IsConst() {
			a, b = b, a
		}
	case OpSub:
		if zero(b) {
			return a
		}
		if a == b {
			return tt.BV(0, w)
		}
		if b.IsConst() {
			return tt.Bin(OpAdd, a, tt.binFold(OpSub, tt.BV(0, w), b))
		}
	case OpMul:
		if zero(a) || zero(b) {
			return tt.BV(0, w)
		}
		if a.IsConst() && a.Val.Cmp(big.NewInt(1)) == 0 {
			return b
		}
		if b.IsConst() && b.Val.Cmp(big.NewInt(1)) == 0 {
			return a
		}
	case OpBAnd:
		if zero(a) || zero(b) {
			return tt.BV(0, w)
		}
		if a == b {
			return a
		}
		if b.IsConst() && b.Val.Cmp(mask(w)) == 0 {
			return a
		}
		if a.IsConst() && a.Val.Cmp(mask(w)) == 0 {
			return b
		}
		// zext(x) & const that covers x
		if b.IsConst() && a.Op == OpZExt && b.Val.Cmp(mask(a.Args[0].W)) == 0 {
			return a
		}
	case OpBOr:
		if zero(a) {
			return b
		}
		if zero(b) {
			return a
		}
		if a == b {
			return a
		}
		if r := tt.orAsConcat(a, b); r != nil {
			return r
		}
	case OpBXor:
		if zero(a) {
			return b
		}
		if zero(b) {
			return a
		}
		if a == b {
			return tt.BV(0, w)
		}
	case OpShl:
		if zero(b) {
			return a
		}
		if zero(a) {
			return a
		}
		if b.IsConst() {
			if b.Val.Cmp(big.NewInt(int64(w))) >= 0 {
				return tt.BV(0, w)
			}
			k := int(b.Val.Uint64())
			// shl(x,k) = concat(extract(w-k-1,0,x), 0_k)
			return tt.Concat(tt.Extract(a, w-k-1, 0), tt.BV(0, k))
		}
	case OpLShr:
		if zero(b) || zero(a) {
			return a
		}
		if b.IsConst() {
			if b.Val.Cmp(big.NewInt(int64(w))) >= 0 {
				return tt.BV(0, w)
			}
			k := int(b.Val.Uint64())
			return tt.ZExt(tt.Extract(a, w-1, k), w)
		}
	case OpAShr:
		if zero(b) || zero(a) {
			return a
		}
		if b.IsConst() {
			k := int(b.Val.Uint64())
			if b.Val.Cmp(big.NewInt(int64(w))) >= 0 {
				k = w - 1
			}
			return tt.SExt(tt.Extract(a, w-1, k), w)
		}
	}
	return tt.mk(&Term{Op: op, W: w, Args: []*Term{a, b}})
}

// pieces decomposes a term into (value bits, known-zero elsewhere) as a list of
// segments from high to low; nil term in a segment = zero bits.
type seg struct {
	t *Term // nil => zeros
	w int
}

func segsOf(t *Term) []seg {
	switch t.Op {
	case OpConcat:
		var out []seg
		for _, a := range t.Args {
			out = append(out, segsOf(a)...)
		}
		return out
	case OpZExt:
		x := t.Args[0]
		return append([]seg{{nil, t.W - x.W}}, segsOf(x)...)
	case OpConst:
		if t.Val.Sign() == 0 {
			return []seg{{nil, t.W}}
		}
	}
	return []seg{{t, t.W}}
}

// orAsConcat folds or(a,b) when a and b occupy disjoint bit ranges.
func (tt *TermTable) orAsConcat(a, b *Term) *Term {
	sa, sb := segsOf(a), segsOf(b)
	if len(sa) == 1 && sa[0].t != nil && len(sb) == 1 && sb[0].t != nil {
		return nil
	}
	// split both into aligned boundaries
	bounds := map[int]bool{}
	pos := 0
	for _, s := range sa {
		pos += s.w
		bounds[pos] = true
	}
	pos = 0
	for _, s := range sb {
		pos += s.w
		bounds[pos] = true
	}
	split := func(ss []seg) []seg {
		var out []seg
		pos := 0
		for _, s := range ss {
			start := pos
			end := pos + s.w
			cur := start
			for p := start + 1; p <= end; p++ {
				if bounds[p] {
					if s.t == nil {
						out = append(out, seg{nil, p - cur})
					} else {
						// bits: segment occupies [start,end) from the high side
						hi := s.w - 1 - (cur - start)
						lo := s.w - (p - start)
						out = append(out, seg{tt.Extract(s.t, hi, lo), p - cur})
					}
					cur = p
				}
			}
			pos = end
		}
		return out
	}
	xa, xb := split(sa), split(sb)
	if len(xa) != len(xb) {
		return nil
	}
	parts := make([]*Term, len(xa))
	for i := range xa {
		switch {
		case xa[i].t == nil && xb[i].t == nil:
			parts[i] = tt.BV(0, xa[i].w)
		case xa[i].t == nil:
			parts[i] = xb[i].t
		case xb[i].t == nil:
			parts[i] = xa[i].t
		default:
			return nil
		}
	}
	return tt.Concat(parts...)
}

func (tt *TermTable) Un(op Op, a *Term) *Term {
	if a.IsConst() {
		r := new(big.Int)
		switch op {
		case OpBNot:
			r.Xor(a.Val, mask(a.W))
		case OpNeg:
			r.Sub(new(big.Int).Lsh(big.NewInt(1), uint(a.W)), a.Val)
		}
		return tt.BVBig(r, a.W)
	}
	if a.Op == op {
		return a.Args[0]
	}
	return tt.mk(&Term{Op: op, W: a.W, Args: []*Term{a}})
}

func (tt *TermTable) Cmp(op Op, a, b *Term) *Term {
	if a.W != b.W {
		panic(fmt.Sprintf("cmp width mismatch %d %d", a.W, b.W))
	}
	if a.IsConst() && b.IsConst() {
		var r bool
		switch op {
		case OpULt:
			r = a.Val.Cmp(b.Val) < 0
		case OpULe:
			r = a.Val.Cmp(b.Val) <= 0
		case OpSLt, OpSLe:
			sx := func(v *big.Int) *big.Int {
				s := new(big.Int).Set(v)
				if v.Bit(a.W-1) == 1 {
					s.Sub(s, new(big.Int).Lsh(big.NewInt(1), uint(a.W)))
				}
				return s
			}
			c := sx(a.Val).Cmp(sx(b.Val))
			if op == OpSLt {
				r = c < 0
			} else {
				r = c <= 0
			}
		}
		return tt.Bool(r)
	}
	if a == b {
		return tt.Bool(op == OpULe || op == OpSLe)
	}
	if op == OpULt && b.IsConst() && b.Val.Sign() == 0 {
		return tt.False
	}
	if op == OpULe && a.IsConst() && a.Val.Sign() == 0 {
		return tt.True
	}
	// unsigned compare of zext'ed values against a constant out of range
	if (op == OpULt || op == OpULe) && a.Op == OpZExt && b.IsConst() {
		if b.Val.BitLen() > a.Args[0].W {
			return tt.True
		}
	}
	if (op == OpSLt || op == OpSLe) && a.Op == OpZExt && b.IsConst() && a.W > a.Args[0].W {
		// a is non-negative and < 2^k
		if b.Val.Bit(a.W-1) == 0 && b.Val.BitLen() > a.Args[0].W {
			return tt.True
		}
		if b.Val.Bit(a.W-1) == 1 {
			return tt.False
		}
	}
	if (op == OpSLt || op == OpSLe) && b.Op == OpZExt && a.IsConst() && b.W > b.Args[0].W {
		if a.Val.Bit(a.W-1) == 1 {
			return tt.True // negative const < non-negative
		}
		if a.Val.Sign() == 0 && op == OpSLe {
			return tt.True
		}
	}
	return tt.mk(&Term{Op: op, Args: []*Term{a, b}})
}

func (tt *TermTable) Concat(xs ...*Term) *Term {
	var flat []*Term
	for _, x := range xs {
		if x.W == 0 {
			panic("concat of bool")
		}
		if x.Op == OpConcat {
			flat = append(flat, x.Args...)
		} else {
			flat = append(flat, x)
		}
	}
	// merge adjacent constants and adjacent extracts of the same base
	var out []*Term
	for _, x := range flat {
		if len(out) > 0 {
			p := out[len(out)-1]
			if p.IsConst() && x.IsConst() {
				v := new(big.Int).Lsh(p.Val, uint(x.W))
				v.Or(v, x.Val)
				out[len(out)-1] = tt.BVBig(v, p.W+x.W)
				continue
			}
			if p.Op == OpExtract && x.Op == OpExtract && p.Args[0] == x.Args[0] && p.B == x.A+1 {
				out[len(out)-1] = tt.Extract(p.Args[0], p.A, x.B)
				continue
			}
		}
		out = append(out, x)
	}
	if len(out) == 1 {
		return out[0]
	}
	w := 0
	for _, x := range out {
		w += x.W
	}
	// leading zero constant => zext
	if out[0].IsConst() && out[0].Val.Sign() == 0 {
		rest := tt.Concat(out[1:]...)
		return tt.ZExt(rest, w)
	}
	return tt.mk(&Term{Op: OpConcat, W: w, Args: out})
}

func (tt *TermTable) Extract(x *Term, hi, lo int) *Term {
	if hi < lo || hi >= x.W || lo < 0 {
		panic(fmt.Sprintf("bad extract [%d:%d] of width %d", hi, lo, x.W))
	}
	if lo == 0 && hi == x.W-1 {
		return x
	}
	w := hi - lo + 1
	switch x.Op {
	case OpConst:
		v := new(big.Int).Rsh(x.Val, uint(lo))
		return tt.BVBig(v, w)
	case OpExtract:
		return tt.Extract(x.Args[0], x.B+hi, x.B+lo)
	case OpConcat:
		// find pieces
		pos := x.W
		var parts []*Term
		for _, a := range x.Args {
			ahi := pos - 1
			alo := pos - a.W
			pos = alo
			if ahi < lo || alo > hi {
				continue
			}
			h := hi
			if ahi < h {
				h = ahi
			}
			l := lo
			if alo > l {
				l = alo
			}
			parts = append(parts, tt.Extract(a, h-alo, l-alo))
		}
		return tt.Concat(parts...)
	case OpZExt:
		in := x.Args[0]
		if hi < in.W {
			return tt.Extract(in, hi, lo)
		}
		if lo >= in.W {
			return tt.BV(0, w)
		}
		return tt.ZExt(tt.Extract(in, in.W-1, lo), w)
	case OpSExt:
		in := x.Args[0]
		if hi < in.W {
			return tt.Extract(in, hi, lo)
		}
	case OpIte:
		if x.Args[1].IsConst() && x.Args[2].IsConst() {
			return tt.Ite(x.Args[0], tt.Extract(x.Args[1], hi, lo), tt.Extract(x.Args[2], hi, lo))
		}
	case OpBAnd, OpBOr, OpBXor:
		if x.Args[0].IsConst() || x.Args[1].IsConst() {
			return tt.Bin(x.Op, tt.Extract(x.Args[0], hi, lo), tt.Extract(x.Args[1], hi, lo))
		}
	}
	return tt.mk(&Term{Op: OpExtract, W: w, A: hi, B: lo, Args: []*Term{x}})
}

func (tt *TermTable) ZExt(x *Term, w int) *Term {
	if w == x.W {
		return x
	}
	if w < x.W {
		return tt.Extract(x, w-1, 0)
	}
	if x.IsConst() {
		return tt.BVBig(x.Val, w)
	}
	if x.Op == OpZExt {
		return tt.ZExt(x.Args[0], w)
	}
	return tt.mk(&Term{Op: OpZExt, W: w, Args: []*Term{x}})
}

func (tt *TermTable) SExt(x *Term, w int) *Term {
	if w == x.W {
		return x
	}
	if w < x.W {
		return tt.Extract(x, w-1, 0)
	}
	if x.IsConst() {
		v := new(big.Int).Set(x.Val)
		if v.Bit(x.W-1) == 1 {
			v.Sub(v, new(big.Int).Lsh(big.NewInt(1), uint(x.W)))
		}
		return tt.BVBig(v, w)
	}
	if x.Op == OpZExt && x.W > x.Args[0].W {
		return tt.ZExt(x.Args[0], w)
	}
	return tt.mk(&Term{Op: OpSExt, W: w, Args: []*Term{x}})
}

// UF applies an uninterpreted function; the signature is registered on first use.
func (tt *TermTable) UF(name string, resW int, args ...*Term) *Term {
	if _, ok := tt.UFs[name]; !ok {
		sig := ufSig{res: resW}
		for _, a := range args {
			sig.args = append(sig.args, a.W)
		}
		tt.UFs[name] = sig
		tt.ufOrd = append(tt.ufOrd, name)
	}
	return tt.mk(&Term{Op: OpUF, W: resW, Name: name, Args: args})
}

// FP builds floating-point predicates/ops over 64-bit patterns.
func (tt *TermTable) FP(op Op, w int, args ...*Term) *Term {
	return tt.mk(&Term{Op: op, W: w, Args: args})
}

func sortStr(w int) string {
	if w == 0 {
		return "Bool"
	}
	return fmt.Sprintf("(_ BitVec %d)", w)
}

func constStr(t *Term) string {
	if t.W == 0 {
		if t.IsTrue() {
			return "true"
		}
		return "false"
	}
	if t.W%4 == 0 {
		s := t.Val.Text(16)
		return "#x" + strings.Repeat("0", t.W/4-len(s)) + s
	}
	s := t.Val.Text(2)
	return "#b" + strings.Repeat("0", t.W-len(s)) + s
}

// ref is how a term is referenced from another term's definition.
func (t *Term) ref() string {
	switch t.Op {
	case OpConst:
		return constStr(t)
	case OpVar:
		return t.Name
	}
	return fmt.Sprintf("t%d", t.ID)
}

func fpOf(r string, w int) string {
	if w == 32 {
		return "((_ to_fp 8 24) " + r + ")"
	}
	return "((_ to_fp 11 53) " + r + ")"
}

// body renders the defining expression of a non-leaf term.
func (t *Term) body() string {
	var sb strings.Builder
	refs := make([]string, len(t.Args))
	for i, a := range t.Args {
		refs[i] = a.ref()
	}
	switch t.Op {
	case OpExtract:
		fmt.Fprintf(&sb, "((_ extract %d %d) %s)", t.A, t.B, refs[0])
	case OpZExt:
		fmt.Fprintf(&sb, "((_ zero_extend %d) %s)", t.W-t.Args[0].W, refs[0])
	case OpSExt:
		fmt.Fprintf(&sb, "((_ sign_extend %d) %s)", t.W-t.Args[0].W, refs[0])
	case OpUF:
		fmt.Fprintf(&sb, "(%s %s)", t.Name, strings.Join(refs, " "))
	case OpFPLt:
		fmt.Fprintf(&sb, "(fp.lt %s %s)", fpOf(refs[0], t.Args[0].W), fpOf(refs[1], t.Args[0].W))
	case OpFPLe:
		fmt.Fprintf(&sb, "(fp.leq %s %s)", fpOf(refs[0], t.Args[0].W), fpOf(refs[1], t.Args[0].W))
	case OpFPEq:
		fmt.Fprintf(&sb, "(fp.eq %s %s)", fpOf(refs[0], t.Args[0].W), fpOf(refs[1], t.Args[0].W))
	case OpFPIsNaN:
		fmt.Fprintf(&sb, "(fp.isNaN %s)", fpOf(refs[0], t.Args[0].W))
	default:
		n, ok := opNames[t.Op]
		if !ok {
			panic(fmt.Sprintf("no smt name for op %d", t.Op))
		}
		fmt.Fprintf(&sb, "(%s %s)", n, strings.Join(refs, " "))
	}
	return sb.String()
}

func (t *Term) String() string {
	switch t.Op {
	case OpConst, OpVar:
		return t.ref()
	}
	return t.strDepth(3)
}

func (t *Term) strDepth(d int) string {
	switch t.Op {
	case OpConst, OpVar:
		return t.ref()
	}
	if d == 0 {
		return fmt.Sprintf("t%d", t.ID)
	}
	parts := make([]string, len(t.Args))
	for i, a := range t.Args {
		parts[i] = a.strDepth(d - 1)
	}
	switch t.Op {
	case OpExtract:
		return fmt.Sprintf("%s[%d:%d]", parts[0], t.A, t.B)
	case OpUF:
		return fmt.Sprintf("%s(%s)", t.Name, strings.Join(parts, ","))
	case OpZExt:
		return fmt.Sprintf("zext%d(%s)", t.W, parts[0])
	case OpSExt:
		return fmt.Sprintf("sext%d(%s)", t.W, parts[0])
	}
	return fmt.Sprintf("(%s %s)", opNames[t.Op], strings.Join(parts, " "))
}

// Eval evaluates a term under an assignment of variables and UF application values.
// Missing variables default to zero. Used for concrete-mode checks and model lifting.
func (tt *TermTable) Eval(t *Term, env map[string]*big.Int, ufv func(t *Term, args []*big.Int) *big.Int, memo map[int]*big.Int) *big.Int {
	if v, ok := memo[t.ID]; ok {
		return v
	}
	var r *big.Int
	switch t.Op {
	case OpConst:
		r = t.Val
	case OpVar:
		if v, ok := env[t.Name]; ok {
			r = v
		} else {
			r = big.NewInt(0)
		}
	default:
		args := make([]*big.Int, len(t.Args))
		for i, a := range t.Args {
			args[i] = tt.Eval(a, env, ufv, memo)
		}
		r = tt.evalOp(t, args, ufv)
	}
	memo[t.ID] = r
	return r
}

func (tt *TermTable) evalOp(t *Term, a []*big.Int, ufv func(t *Term, args []*big.Int) *big.Int) *big.Int {
	b2i := func(b bool) *big.Int {
		if b {
			return big.NewInt(1)
		}
		return big.NewInt(0)
	}
	ct := func(i int) *Term { return tt.BVBig(a[i], t.Args[i].W) }
	switch t.Op {
	case OpNot:
		return b2i(a[0].Sign() == 0)
	case OpAnd:
		for _, x := range a {
			if x.Sign() == 0 {
				return big.NewInt(0)
			}
		}
		return big.NewInt(1)
	case OpOr:
		for _, x := range a {
			if x.Sign() != 0 {
				return big.NewInt(1)
			}
		}
		return big.NewInt(0)
	case OpIte:
		if a[0].Sign() != 0 {
			return a[1]
		}
		return a[2]
	case OpEq:
		return b2i(a[0].Cmp(a[1]) == 0)
	case OpAdd, OpSub, OpMul, OpUDiv, OpURem, OpSDiv, OpSRem, OpBAnd, OpBOr, OpBXor, OpShl, OpLShr, OpAShr:
		r := tt.binFold(t.Op, ct(0), ct(1))
		if r == nil {
			return big.NewInt(0)
		}
		return r.Val
	case OpBNot, OpNeg:
		return tt.Un(t.Op, ct(0)).Val
	case OpULt, OpULe, OpSLt, OpSLe:
		return tt.Cmp(t.Op, ct(0), ct(1)).Val
	case OpConcat:
		r := new(big.Int)
		for i, x := range a {
			r.Lsh(r, uint(t.Args[i].W))
			r.Or(r, x)
		}
		return r
	case OpExtract:
		r := new(big.Int).Rsh(a[0], uint(t.B))
		return r.And(r, mask(t.W))
	case OpZExt:
		return a[0]
	case OpSExt:
		return tt.SExt(ct(0), t.W).Val
	case OpUF:
		return ufv(t, a)
	}
	panic(fmt.Sprintf("eval: unsupported op %d", t.Op))
}
