package sym

import (
	"math/big"
)

// time.Time is kept in its real representation {wall uint64, ext int64, loc *Location}; the
// functions below are modelled directly for times without a monotonic reading (everything
// except time.Now in the real program), avoiding the flag-bit tests of the library code.

const unixToInternal = 62135596800

func init() {
	add := func(k string, f intrinsic) { intrinsics[k] = f }
	add("time.Unix", inTimeUnix)
	add("time.Now", inTimeNow)
	add("(time.Time).Unix", func(ex *Exec, c *callCtx) (Value, bool) {
		t := c.args[0].(Agg)
		return ex.tt.Bin(OpSub, t[1].(*Term), ex.tt.BV(unixToInternal, 64)), true
	})
	add("(time.Time).Nanosecond", func(ex *Exec, c *callCtx) (Value, bool) {
		return c.args[0].(Agg)[0].(*Term), true
	})
	add("(time.Time).UnixNano", func(ex *Exec, c *callCtx) (Value, bool) {
		t := c.args[0].(Agg)
		sec := ex.tt.Bin(OpSub, t[1].(*Term), ex.tt.BV(unixToInternal, 64))
		return ex.tt.Bin(OpAdd, ex.tt.Bin(OpMul, sec, ex.tt.BV(1000000000, 64)), t[0].(*Term)), true
	})
	add("(time.Time).UnixMicro", func(ex *Exec, c *callCtx) (Value, bool) {
		t := c.args[0].(Agg)
		sec := ex.tt.Bin(OpSub, t[1].(*Term), ex.tt.BV(unixToInternal, 64))
		return ex.tt.Bin(OpAdd, ex.tt.Bin(OpMul, sec, ex.tt.BV(1000000, 64)), ex.tt.Bin(OpSDiv, t[0].(*Term), ex.tt.BV(1000, 64))), true
	})
	add("(time.Time).UnixMilli", func(ex *Exec, c *callCtx) (Value, bool) {
		t := c.args[0].(Agg)
		sec := ex.tt.Bin(OpSub, t[1].(*Term), ex.tt.BV(unixToInternal, 64))
		return ex.tt.Bin(OpAdd, ex.tt.Bin(OpMul, sec, ex.tt.BV(1000, 64)), ex.tt.Bin(OpSDiv, t[0].(*Term), ex.tt.BV(1000000, 64))), true
	})
	cmp := func(kind string) intrinsic {
		return func(ex *Exec, c *callCtx) (Value, bool) {
			tt := ex.tt
			a, b := c.args[0].(Agg), c.args[1].(Agg)
			as, an, bs, bn := a[1].(*Term), a[0].(*Term), b[1].(*Term), b[0].(*Term)
			lt := tt.Or(tt.Cmp(OpSLt, as, bs), tt.And(tt.Eq(as, bs), tt.Cmp(OpULt, an, bn)))
			gt := tt.Or(tt.Cmp(OpSLt, bs, as), tt.And(tt.Eq(as, bs), tt.Cmp(OpULt, bn, an)))
			switch kind {
			case "before":
				return lt, true
			case "after":
				return gt, true
			case "equal":
				return tt.And(tt.Eq(as, bs), tt.Eq(an, bn)), true
			}
			// Compare
			return tt.Ite(lt, tt.BVBig(big.NewInt(-1), 64), tt.Ite(gt, tt.BV(1, 64), tt.BV(0, 64))), true
		}
	}
	add("(time.Time).Before", cmp("before"))
	add("(time.Time).After", cmp("after"))
	add("(time.Time).Equal", cmp("equal"))
	add("(time.Time).Compare", cmp("compare"))
	add("(time.Time).UTC", func(ex *Exec, c *callCtx) (Value, bool) {
		t := c.args[0].(Agg)
		return Agg{t[0], t[1], ex.timeUTCLoc(c.s)}, true
	})
	add("(time.Time).IsZero", func(ex *Exec, c *callCtx) (Value, bool) {
		t := c.args[0].(Agg)
		return ex.tt.And(ex.tt.Eq(t[1].(*Term), ex.tt.BV(0, 64)), ex.tt.Eq(t[0].(*Term), ex.tt.BV(0, 64))), true
	})
}

func (ex *Exec) timeUTCLoc(s *State) Value {
	if tp := ex.prog.Prog.ImportedPackage("time"); tp != nil {
		if g := tp.Var("utcLoc"); g != nil {
			return Ptr{Obj: ex.globalObj(s, g)}
		}
	}
	return Ptr{}
}

func (ex *Exec) timeLocalLoc(s *State) Value {
	if tp := ex.prog.Prog.ImportedPackage("time"); tp != nil {
		if g := tp.Var("localLoc"); g != nil {
			return Ptr{Obj: ex.globalObj(s, g)}
		}
	}
	return Ptr{}
}

// time.Unix(sec, nsec): the library's normalisation of nsec into [0, 1e9).
func inTimeUnix(ex *Exec, c *callCtx) (Value, bool) {
	tt := ex.tt
	sec, nsec := c.args[0].(*Term), c.args[1].(*Term)
	e9 := tt.BV(1000000000, 64)
	zero := tt.BV(0, 64)
	outr := tt.Or(tt.Cmp(OpSLt, nsec, zero), tt.Cmp(OpSLe, e9, nsec))
	if !outr.IsFalse() {
		n := tt.Bin(OpSDiv, nsec, e9)
		sec1 := tt.Bin(OpAdd, sec, n)
		nsec1 := tt.Bin(OpSub, nsec, tt.Bin(OpMul, n, e9))
		neg := tt.Cmp(OpSLt, nsec1, zero)
		sec2 := tt.Ite(neg, tt.Bin(OpSub, sec1, tt.BV(1, 64)), sec1)
		nsec2 := tt.Ite(neg, tt.Bin(OpAdd, nsec1, e9), nsec1)
		sec = tt.Ite(outr, sec2, sec)
		nsec = tt.Ite(outr, nsec2, nsec)
	}
	return Agg{nsec, tt.Bin(OpAdd, sec, tt.BV(unixToInternal, 64)), ex.timeLocalLoc(c.s)}, true
}

// time.Now(): an arbitrary instant (no monotonic reading), nsec in [0, 1e9).
func inTimeNow(ex *Exec, c *callCtx) (Value, bool) {
	tt := ex.tt
	mk := func(name string) *Term {
		key, smt := ex.nextKey(c.s, name)
		var t *Term
		if ex.Concrete != nil {
			v := ex.Concrete[key]
			if v == nil {
				v = big.NewInt(0)
			}
			t = tt.BVBig(v, 64)
		} else {
			t = tt.Var(smt, 64)
		}
		c.s.inputs = append(c.s.inputs, Input{Key: key, Kind: "i64", Terms: []*Term{t}})
		return t
	}
	sec, nsec := mk("time.Now.sec"), mk("time.Now.nsec")
	c.s.addPC(tt.Cmp(OpULt, nsec, tt.BV(1000000000, 64)))
	c.s.addPC(tt.Cmp(OpSLe, tt.BV(0, 64), sec))
	c.s.addPC(tt.Cmp(OpSLt, sec, tt.BV(1<<40, 64)))
	return Agg{nsec, tt.Bin(OpAdd, sec, tt.BV(unixToInternal, 64)), ex.timeLocalLoc(c.s)}, true
}
