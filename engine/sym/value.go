package sym

import (
	"fmt"
	"go/types"

	"golang.org/x/tools/go/ssa"
)

// Value is one of: *Term, Ptr, Agg, Slice, Str, Iface, *Closure, MapRef, Tuple, ChanRef, Opaque, FuncRef.
type Value interface{}

// PathElem selects a field (struct) or an element (array) of an aggregate.
type PathElem struct {
	Idx int
	Sym *Term // non-nil: symbolic array index (64-bit)
}

// Ptr points into a heap object. Obj==0 is the nil pointer.
type Ptr struct {
	Obj  int
	Path []PathElem
}

// Agg is an immutable struct or array value.
type Agg []Value

// Slice is a Go slice: a window into an array-valued location.
type Slice struct {
	Base          Ptr // pointer to the backing array (Obj==0: nil slice)
	Off, Len, Cap *Term
}

// Str is a Go string with concrete length and possibly symbolic bytes.
type Str struct {
	B []*Term
}

// Iface is an interface value; T==nil is the nil interface.
type Iface struct {
	T types.Type
	V Value
}

// Closure is a function value. Fn==nil is the nil func.
type Closure struct {
	Fn       *ssa.Function
	Bindings []Value
	Builtin  *ssa.Builtin
	Stub     string // opaque function value (e.g. from an external package)
}

// MapRef references a map object; Obj==0 is the nil map.
type MapRef struct{ Obj int }

// ChanRef references a channel object.
type ChanRef struct{ Obj int }

// Tuple is a multi-value result.
type Tuple []Value

// MapVal is the immutable content of a map object (association list in insertion order).
type MapVal struct {
	Keys []Value
	Vals []Value
}

// ChanVal is the content of a channel object.
type ChanVal struct {
	Q      []Value
	Closed bool
}

// Opaque is a value of an un-modelled type (e.g. *prometheus.CounterVec).
type Opaque struct {
	T  types.Type
	ID int
}

// MapIter is the state of a range over a map/string.
type MapIter struct {
	Keys []Value
	Vals []Value
	Pos  int
	Str  *Str
}

func intWidth(t types.Type) int {
	switch b := t.Underlying().(type) {
	case *types.Basic:
		switch b.Kind() {
		case types.Bool, types.UntypedBool:
			return 0
		case types.Int8, types.Uint8:
			return 8
		case types.Int16, types.Uint16:
			return 16
		case types.Int32, types.Uint32, types.Float32, types.UntypedRune:
			return 32
		case types.Int, types.Uint, types.Int64, types.Uint64, types.Uintptr, types.Float64, types.UntypedInt, types.UntypedFloat:
			return 64
		case types.UnsafePointer:
			return 64
		}
	}
	return -1
}

func isUnsigned(t types.Type) bool {
	b, ok := t.Underlying().(*types.Basic)
	return ok && b.Info()&types.IsUnsigned != 0
}

func isFloat(t types.Type) bool {
	b, ok := t.Underlying().(*types.Basic)
	return ok && b.Info()&types.IsFloat != 0
}

func isString(t types.Type) bool {
	b, ok := t.Underlying().(*types.Basic)
	return ok && b.Info()&types.IsString != 0
}

func (ex *Exec) zero(t types.Type) Value {
	tt := ex.tt
	switch u := t.Underlying().(type) {
	case *types.Basic:
		if u.Info()&types.IsString != 0 {
			return Str{}
		}
		if u.Kind() == types.UntypedNil {
			return Ptr{}
		}
		w := intWidth(t)
		if w == 0 {
			return tt.False
		}
		if w < 0 {
			panic(fmt.Sprintf("zero: unsupported basic type %v", t))
		}
		return tt.BV(0, w)
	case *types.Pointer:
		return Ptr{}
	case *types.Slice:
		z := tt.BV(0, 64)
		return Slice{Off: z, Len: z, Cap: z}
	case *types.Struct:
		a := make(Agg, u.NumFields())
		for i := range a {
			a[i] = ex.zero(u.Field(i).Type())
		}
		return a
	case *types.Array:
		n := int(u.Len())
		a := make(Agg, n)
		if n > 0 {
			z := ex.zero(u.Elem())
			for i := range a {
				a[i] = z
			}
		}
		return a
	case *types.Interface:
		return Iface{}
	case *types.Map:
		return MapRef{}
	case *types.Chan:
		return ChanRef{}
	case *types.Signature:
		return (*Closure)(nil)
	case *types.Tuple:
		tp := make(Tuple, u.Len())
		for i := range tp {
			tp[i] = ex.zero(u.At(i).Type())
		}
		return tp
	}
	panic(fmt.Sprintf("zero: unsupported type %v (%T)", t, t.Underlying()))
}

func samePath(a, b []PathElem) bool {
	if len(a) != len(b) {
		return false
	}
	for i := range a {
		if a[i].Idx != b[i].Idx || a[i].Sym != b[i].Sym {
			return false
		}
	}
	return true
}

func extendPath(p []PathElem, e PathElem) []PathElem {
	n := make([]PathElem, len(p)+1)
	copy(n, p)
	n[len(p)] = e
	return n
}

func describe(v Value) string {
	switch x := v.(type) {
	case *Term:
		return x.String()
	case Ptr:
		return fmt.Sprintf("&obj%d%v", x.Obj, x.Path)
	case Agg:
		return fmt.Sprintf("agg[%d]", len(x))
	case Slice:
		return fmt.Sprintf("slice(obj%d off=%v len=%v cap=%v)", x.Base.Obj, x.Off, x.Len, x.Cap)
	case Str:
		return fmt.Sprintf("str[%d]", len(x.B))
	case Iface:
		return fmt.Sprintf("iface(%v)", x.T)
	}
	return fmt.Sprintf("%T", v)
}
