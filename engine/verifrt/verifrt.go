// Package verifrt is the harness vocabulary of the /verif symbolic executor (symgo).
// The executor intercepts every function below; compiled natively (replay and translator
// validation) they read a recorded concrete stream instead.
package verifrt

import (
	"encoding/hex"
	"encoding/json"
	"fmt"
	"os"
	"runtime"
	"strconv"
	"strings"
	"testing"
)

var (
	stream map[string]string
	seq    map[string]int
	trace  []string
	stubs  = map[string]interface{}{}
)

type assumeFailed struct{}
type skipped struct{}
type assertFailed struct{ label string }

func next(name string) (string, bool) {
	k := fmt.Sprintf("%s#%d", name, seq[name])
	seq[name]++
	v, ok := stream[k]
	return v, ok
}

func num(name string) uint64 {
	v, ok := next(name)
	if !ok {
		return 0
	}
	n, err := strconv.ParseUint(v, 10, 64)
	if err != nil {
		// wider than 64 bits or negative: take low bits
		if i, err2 := strconv.ParseInt(v, 10, 64); err2 == nil {
			return uint64(i)
		}
		return 0
	}
	return n
}

func U64(name string) uint64 { return num(name) }
func I64(name string) int64  { return int64(num(name)) }
func Int(name string) int    { return int(int64(num(name))) }
func U32(name string) uint32 { return uint32(num(name)) }
func U16(name string) uint16 { return uint16(num(name)) }
func Byte(name string) byte  { return byte(num(name)) }
func Bool(name string) bool  { return num(name) != 0 }

func rawBytes(name string, n int) []byte {
	v, ok := next(name)
	out := make([]byte, n)
	if !ok {
		return out
	}
	b, _ := hex.DecodeString(strings.TrimPrefix(v, "x:"))
	copy(out, b)
	return out
}

// Bytes returns n arbitrary bytes.
func Bytes(name string, n int) []byte { return rawBytes(name, n) }

// BytesUpTo returns a slice of arbitrary length 0..max with arbitrary content.
func BytesUpTo(name string, max int) []byte {
	b := rawBytes(name, max)
	n := int(num(name + ".len"))
	if n < 0 || n > max {
		panic(assumeFailed{})
	}
	return b[:n:n]
}

// Digest returns 32 arbitrary bytes.
func Digest(name string) [32]byte {
	var d [32]byte
	copy(d[:], rawBytes(name, 32))
	return d
}

// Digests returns n arbitrary digests.
func Digests(name string, n int) [][32]byte {
	out := make([][32]byte, n)
	for i := range out {
		out[i] = Digest(name)
	}
	return out
}

// DigestsUpTo returns a slice of arbitrary length 0..max of arbitrary digests.
func DigestsUpTo(name string, max int) [][32]byte {
	out := Digests(name, max)
	n := int(num(name + ".len"))
	if n < 0 || n > max {
		panic(assumeFailed{})
	}
	return out[:n:n]
}

// Assume restricts the inputs under consideration; it must precede the code it constrains.
func Assume(c bool) {
	if !c {
		panic(assumeFailed{})
	}
}

// Assert states the property.
func Assert(c bool, label string) {
	if !c {
		trace = append(trace, "assert-fail "+label)
		panic(assertFailed{label})
	}
	trace = append(trace, "assert-ok "+label)
}

// Reach marks a point that must be reachable (vacuity guard).
func Reach(label string) { trace = append(trace, "reach "+label) }

// Event records a trace event.
func Event(name string, args ...interface{}) {}

// Param is a concrete shape parameter chosen by the driver.
func Param(name string) int {
	v, ok := stream["param:"+name]
	if !ok {
		panic("verifrt: missing param " + name)
	}
	n, _ := strconv.Atoi(v)
	return n
}

// Skip ends the run: this shape is not applicable.
func Skip() { panic(skipped{}) }

// Stub replaces the named function/method by fn in this harness (executor only; natively
// the replay generator interposes it through a source overlay).
func Stub(name string, fn interface{}) { stubs[name] = fn }

// Lookup returns a registered stub.
func Lookup(name string) interface{} { return stubs[name] }

// Merge asks the executor to join the returning paths of the named effect-free function.
func Merge(name string) {}

// SortSlice is what the executor runs for sort.Slice / sort.SliceStable (which use reflection):
// a stable insertion sort driven by the caller's less and an element swap.
func SortSlice(n int, less func(i, j int) bool, swap func(i, j int)) {
	for i := 1; i < n; i++ {
		for j := i; j > 0 && less(j, j-1); j-- {
			swap(j, j-1)
		}
	}
}

// TempDir returns a fresh scratch directory (natively a real one, removed after the run; in
// the executor the root of a per-path set of existing file names).
func TempDir() string {
	d, err := os.MkdirTemp("", "verifrt")
	if err != nil {
		panic(err)
	}
	tempDirs = append(tempDirs, d)
	return d
}

// NewFile returns an empty read/write file (natively a real file in a scratch directory; in
// the executor a byte-array model of *os.File supporting Write, ReadAt, Seek(SeekStart), Sync, Close).
func NewFile() *os.File {
	f, err := os.CreateTemp(TempDir(), "file")
	if err != nil {
		panic(err)
	}
	return f
}

// TouchFile creates the (empty) file; FileExists reports whether it exists. Together with
// os.Remove they are the whole file-system vocabulary of the executor.
func TouchFile(path string) {
	if err := os.WriteFile(path, nil, 0644); err != nil {
		panic(err)
	}
}

func FileExists(path string) bool {
	_, err := os.Stat(path)
	return err == nil
}

var tempDirs []string

// Symbolic reports whether the harness runs in the symbolic executor.
func Symbolic() bool { return false }

// AllocLimit states the memory budget of the code under test: the executor reports any
// input-controlled allocation that may exceed it; natively the bytes allocated during the run
// are measured.
func AllocLimit(bytes int) {
	var ms runtime.MemStats
	runtime.ReadMemStats(&ms)
	allocBase, allocLimit = ms.TotalAlloc, uint64(bytes)
}

var allocBase, allocLimit uint64

// AllowPanic tells the executor that panics are not findings in this harness.
func AllowPanic() {}

// Case is one recorded run.
type Case struct {
	ID      string            `json:"id"`
	Harness string            `json:"harness"`
	Stream  map[string]string `json:"stream"`
}

// Outcome of one replayed case.
type Outcome struct {
	ID      string   `json:"id"`
	Outcome string   `json:"outcome"` // ok | assert:<label> | panic:<msg> | assume-false | skip
	Trace   []string `json:"trace"`
}

func runOne(c Case, h func()) (o Outcome) {
	stream, seq, trace = c.Stream, map[string]int{}, nil
	stubs = map[string]interface{}{}
	o.ID = c.ID
	defer func() {
		for _, d := range tempDirs {
			os.RemoveAll(d)
		}
		tempDirs = nil
		o.Trace = trace
		if r := recover(); r != nil {
			switch x := r.(type) {
			case assumeFailed:
				o.Outcome = "assume-false"
			case skipped:
				o.Outcome = "skip"
			case assertFailed:
				o.Outcome = "assert:" + x.label
			default:
				o.Outcome = fmt.Sprintf("panic:%v", r)
			}
		}
	}()
	allocLimit = 0
	h()
	o.Outcome = "ok"
	if allocLimit > 0 {
		var ms runtime.MemStats
		runtime.ReadMemStats(&ms)
		if ms.TotalAlloc-allocBase > allocLimit+(4<<20) {
			o.Outcome = fmt.Sprintf("alloc:exceeded (%d bytes allocated, budget %d)", ms.TotalAlloc-allocBase, allocLimit)
		}
	}
	return
}

// RunReplay runs the cases in $VERIF_REPLAY_FILE and writes outcomes to $VERIF_REPLAY_OUT.
func RunReplay(t *testing.T, hs map[string]func()) {
	in := os.Getenv("VERIF_REPLAY_FILE")
	if in == "" {
		t.Skip("no VERIF_REPLAY_FILE")
	}
	data, err := os.ReadFile(in)
	if err != nil {
		t.Fatal(err)
	}
	var cases []Case
	if err := json.Unmarshal(data, &cases); err != nil {
		t.Fatal(err)
	}
	var outs []Outcome
	for _, c := range cases {
		h, ok := hs[c.Harness]
		if !ok {
			outs = append(outs, Outcome{ID: c.ID, Outcome: "no-harness"})
			continue
		}
		o := runOne(c, h)
		outs = append(outs, o)
		t.Logf("case %s: %s", c.ID, o.Outcome)
	}
	b, _ := json.MarshalIndent(outs, "", " ")
	if out := os.Getenv("VERIF_REPLAY_OUT"); out != "" {
		if err := os.WriteFile(out, b, 0644); err != nil {
			t.Fatal(err)
		}
	}
}
