//go:build verif

package ahtree

import (
	"bytes"
	"crypto/sha256"
	"errors"
	"io"

	"github.com/codenotary/immudb/embedded/verifrt"
)

// verifCrashApp is an in-memory appendable with a volatile image (b) and a durable image (disk:
// what a Sync has made persistent; stale bytes beyond a rewound offset are retained, as on a real
// file). When the shared crash clock expires every further operation fails and has no effect.
type verifCrashApp struct {
	b     []byte
	off   int64
	disk  []byte
	clock *verifClock
	syncs int
}

type verifClock struct {
	ops     int
	crashAt int // 0: never
}

var verifErrCrashed = errors.New("crashed")

func (c *verifClock) tick() bool {
	if c == nil {
		return true
	}
	if c.crashAt > 0 && c.ops >= c.crashAt {
		return false
	}
	c.ops++
	return true
}

func (a *verifCrashApp) Metadata() []byte     { return nil }
func (a *verifCrashApp) Size() (int64, error) { return int64(len(a.b)), nil }
func (a *verifCrashApp) Offset() int64        { return a.off }
func (a *verifCrashApp) SetOffset(off int64) error {
	if !a.clock.tick() {
		return verifErrCrashed
	}
	if off > int64(len(a.b)) {
		return io.EOF
	}
	a.off = off
	a.b = a.b[:off]
	return nil
}
func (a *verifCrashApp) DiscardUpto(off int64) error { return nil }
func (a *verifCrashApp) Append(bs []byte) (off int64, n int, err error) {
	if !a.clock.tick() {
		return 0, 0, verifErrCrashed
	}
	off = a.off
	a.b = append(a.b[:a.off], bs...)
	a.off += int64(len(bs))
	return off, len(bs), nil
}
func (a *verifCrashApp) Flush() error {
	if !a.clock.tick() {
		return verifErrCrashed
	}
	return nil
}
func (a *verifCrashApp) Sync() error {
	if !a.clock.tick() {
		return verifErrCrashed
	}
	a.syncs++
	nd := append([]byte(nil), a.b...)
	if len(a.disk) > len(nd) {
		nd = append(nd, a.disk[len(nd):]...)
	}
	a.disk = nd
	return nil
}
func (a *verifCrashApp) SwitchToReadOnlyMode() error { return nil }
func (a *verifCrashApp) ReadAt(bs []byte, off int64) (int, error) {
	if off < 0 || off >= int64(len(a.b)) {
		return 0, io.EOF
	}
	n := copy(bs, a.b[off:])
	if n < len(bs) {
		return n, io.EOF
	}
	return n, nil
}
func (a *verifCrashApp) Close() error              { return nil }
func (a *verifCrashApp) Copy(dstPath string) error { return nil }
func (a *verifCrashApp) CompressionFormat() int    { return 0 }
func (a *verifCrashApp) CompressionLevel() int     { return 0 }

// image is what a reopen finds: everything written so far (clean shutdown).
func (a *verifCrashApp) reopened() *verifCrashApp {
	return &verifCrashApp{b: append([]byte(nil), a.b...), off: int64(len(a.b))}
}

// crashImage is what a reopen finds after a crash: the volatile bytes below `cut` reached the
// disk, the rest of the file is whatever was durable before.
func (a *verifCrashApp) crashImage(cut int) *verifCrashApp {
	img := append([]byte(nil), a.b[:cut]...)
	if len(a.disk) > cut {
		img = append(img, a.disk[cut:]...)
	}
	return &verifCrashApp{b: img, off: int64(len(img))}
}

func verifOpts(syncThld, cacheSlots int) *Options {
	return DefaultOptions().WithSyncThld(syncThld).WithDataCacheSlots(cacheSlots).WithDigestsCacheSlots(cacheSlots)
}

func verifPayloads(n int, name string) ([][]byte, [][sha256.Size]byte) {
	ps := make([][]byte, n)
	leaves := make([][sha256.Size]byte, n)
	for i := range ps {
		ps[i] = verifrt.Bytes(name, 1)
		leaves[i] = sha256.Sum256(append([]byte{LeafPrefix}, ps[i]...))
	}
	return ps, leaves
}

func verifCheckTree(t *AHtree, ps [][]byte, leaves [][sha256.Size]byte, label string, exactSize bool) {
	n := len(ps)
	if exactSize {
		verifrt.Assert(t.Size() == uint64(n), label+": size")
	} else {
		// a roll-back is not durable by itself: after a restart the tree may again hold the
		// entries that were rolled back (the store resets it to its own frontier at open)
		verifrt.Assert(t.Size() >= uint64(n), label+": size at least the current one")
	}
	for k := 1; k <= n; k++ {
		r, err := t.RootAt(uint64(k))
		verifrt.Assert(err == nil && r == verifMTH(leaves[:k]), label+": RootAt equals the reference root")
		d, err := t.DataAt(uint64(k))
		verifrt.Assert(err == nil && bytes.Equal(d, ps[k-1]), label+": DataAt returns the payload")
	}
	for j := 1; j <= n; j++ {
		jr := verifMTH(leaves[:j])
		for i := 1; i <= j; i++ {
			ip, err := t.InclusionProof(uint64(i), uint64(j))
			verifrt.Assert(err == nil && VerifyInclusion(ip, uint64(i), uint64(j), leaves[i-1], jr), label+": generated inclusion proof verifies")
			cp, err := t.ConsistencyProof(uint64(i), uint64(j))
			verifrt.Assert(err == nil && VerifyConsistency(cp, uint64(i), uint64(j), verifMTH(leaves[:i]), jr), label+": generated consistency proof verifies")
		}
		lp, err := t.InclusionProof(uint64(j), uint64(j))
		verifrt.Assert(err == nil && VerifyLastInclusion(lp, uint64(j), leaves[j-1], jr), label+": generated last-inclusion proof verifies")
	}
}

// VerifH_TreeGeneration: n appends (symbolic payloads), then ResetSize(m) and re-append of
// different payloads, then Close and reopen on the same logs: at every stage size, RootAt, DataAt
// and every generated inclusion / consistency / last-inclusion proof agree with the reference
// Merkle tree of the current payload sequence. Sync threshold and cache sizes are parameters
// (small caches force evictions; small thresholds force a sync inside Append).
func VerifH_TreeGeneration() {
	n, m, extra := verifrt.Param("n"), verifrt.Param("m"), verifrt.Param("extra")
	syncThld, slots := verifrt.Param("syncThld"), verifrt.Param("slots")
	if m > n {
		verifrt.Skip()
	}
	pLog, dLog, cLog := &verifCrashApp{}, &verifCrashApp{}, &verifCrashApp{}
	t, err := OpenWith(pLog, dLog, cLog, verifOpts(syncThld, slots))
	verifrt.Assert(err == nil, "open")
	ps, leaves := verifPayloads(n, "payload")
	for i := 0; i < n; i++ {
		k, h, err := t.Append(ps[i])
		verifrt.Assert(err == nil && k == uint64(i+1), "append returns the new size")
		verifrt.Assert(h == verifMTH(leaves[:i+1]), "append returns the reference root")
	}
	verifCheckTree(t, ps, leaves, "after appends", true)
	verifrt.Reach("built")

	// roll back to m and grow again with different payloads
	err = t.ResetSize(uint64(m))
	verifrt.Assert(err == nil, "reset size")
	ps2, leaves2 := verifPayloads(extra, "payload2")
	ps, leaves = append(append([][]byte(nil), ps[:m]...), ps2...), append(append([][sha256.Size]byte(nil), leaves[:m]...), leaves2...)
	for i := 0; i < extra; i++ {
		_, _, err := t.Append(ps2[i])
		verifrt.Assert(err == nil, "re-append")
	}
	verifCheckTree(t, ps, leaves, "after reset and re-append", true)

	// clean restart
	verifrt.Assert(t.Close() == nil, "close")
	t2, err := OpenWith(pLog.reopened(), dLog.reopened(), cLog.reopened(), verifOpts(syncThld, slots))
	verifrt.Assert(err == nil, "reopen")
	verifCheckTree(t2, ps, leaves, "after restart", extra == 0 && m == n)
	verifrt.Reach("restarted")
}

// VerifH_TreeCrash: crash consistency of the hash tree. n appends (sync threshold thld: a sync
// runs inside every thld-th Append; optionally an explicit Sync after each append), the process
// dies at operation number crashAt (counted over all appendable operations of the three logs);
// what survives in each log is its durable image, with or without the writes not yet synced
// (cutMode), possibly with a torn last commit entry. Reopening on those images never panics; if it succeeds, the recovered tree
// holds at least every entry covered by a completed sync, and for every recovered size k <=
// min(size, n) RootAt(k) and DataAt(k) are those of the first k payloads.
func VerifH_TreeCrash() {
	n, thld, crashAt := verifrt.Param("n"), verifrt.Param("syncThld"), verifrt.Param("crashAt")
	explicitSync := verifrt.Param("explicitSync") == 1
	clock := &verifClock{crashAt: crashAt}
	pLog, dLog, cLog := &verifCrashApp{clock: clock}, &verifCrashApp{clock: clock}, &verifCrashApp{clock: clock}
	t, err := OpenWith(pLog, dLog, cLog, verifOpts(thld, 8))
	verifrt.Assert(err == nil, "open")
	ps, leaves := verifPayloads(n, "payload")
	acked := uint64(0)
	for i := 0; i < n; i++ {
		_, _, err := t.Append(ps[i])
		if err != nil {
			break
		}
		if explicitSync {
			if t.Sync() != nil {
				break
			}
		}
		acked = t.latestSyncedNode
	}
	if clock.ops < crashAt {
		verifrt.Skip() // the workload finished before the crash point: nothing new to check
	}
	verifrt.Reach("crashed")
	// which unsynced writes reached the disk: per log either none (durable image only) or all
	// of them (shape parameter cutMode, bits 0/1/2 = payload/digest/commit log); cutMode 8..11:
	// as 4..7 with the last commit-log entry torn (5 of its 12 bytes written)
	cutMode := verifrt.Param("cutMode")
	cutP, cutD, cutC := 0, 0, 0
	if cutMode&1 != 0 {
		cutP = len(pLog.b)
	}
	if cutMode&2 != 0 {
		cutD = len(dLog.b)
	}
	if cutMode&4 != 0 || cutMode >= 8 {
		cutC = len(cLog.b)
	}
	if cutMode >= 8 {
		if cutC < 12 {
			verifrt.Skip()
		}
		cutC -= 7
	}
	t2, err := OpenWith(pLog.crashImage(cutP), dLog.crashImage(cutD), cLog.crashImage(cutC), verifOpts(thld, 8))
	// commit-log entries are only written after the payload and digest logs are durable, so the
	// recovered commit log never points beyond what the other two logs hold
	verifrt.Assert(err == nil, "recovery succeeds at every crash point")
	verifrt.Reach("recovered")
	size := t2.Size()
	verifrt.Assert(size >= acked, "every entry covered by a completed sync is recovered")
	for k := 1; k <= n; k++ {
		if uint64(k) <= size {
			r, err := t2.RootAt(uint64(k))
			verifrt.Assert(err == nil && r == verifMTH(leaves[:k]), "recovered root is the root of the first k payloads")
			d, err := t2.DataAt(uint64(k))
			verifrt.Assert(err == nil && bytes.Equal(d, ps[k-1]), "recovered payload is the k-th payload")
		}
	}
	verifrt.Assert(size <= uint64(n), "nothing beyond what was appended is recovered")
	// the recovered tree keeps working: one more append lands right after the recovered
	// entries (stale bytes of unrecovered entries in the payload/digest logs are overwritten,
	// not counted)
	extra, extraLeaves := verifPayloads(1, "payloadAfterRecovery")
	for k := 0; k <= n; k++ {
		if uint64(k) == size {
			nn, _, err := t2.Append(extra[0])
			verifrt.Assert(err == nil && nn == uint64(k+1), "append after recovery")
			all := append(append([][sha256.Size]byte(nil), leaves[:k]...), extraLeaves[0])
			r, err := t2.RootAt(uint64(k + 1))
			verifrt.Assert(err == nil && r == verifMTH(all), "root after the post-recovery append")
			d, err := t2.DataAt(uint64(k + 1))
			verifrt.Assert(err == nil && bytes.Equal(d, extra[0]), "payload of the post-recovery append")
			if k > 0 {
				r, err := t2.RootAt(uint64(k))
				verifrt.Assert(err == nil && r == verifMTH(leaves[:k]), "earlier root unchanged by the post-recovery append")
			}
		}
	}
}
