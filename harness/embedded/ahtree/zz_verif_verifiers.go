//go:build verif

package ahtree

import (
	"crypto/sha256"

	"github.com/codenotary/immudb/embedded/verifrt"
)

// verifNode is the reference inner-node hash.
func verifNode(l, r [sha256.Size]byte) [sha256.Size]byte {
	var b [1 + 2*sha256.Size]byte
	b[0] = NodePrefix
	copy(b[1:], l[:])
	copy(b[1+sha256.Size:], r[:])
	return sha256.Sum256(b[:])
}

// verifLeaf is the reference leaf hash of a 32-byte payload.
func verifLeaf(p [sha256.Size]byte) [sha256.Size]byte {
	var b [1 + sha256.Size]byte
	b[0] = LeafPrefix
	copy(b[1:], p[:])
	return sha256.Sum256(b[:])
}

// verifMTH is the reference Merkle tree hash (RFC 6962 shape: unbalanced right edge).
func verifMTH(leaves [][sha256.Size]byte) [sha256.Size]byte {
	n := len(leaves)
	if n == 1 {
		return leaves[0]
	}
	k := 1
	for k*2 < n {
		k *= 2
	}
	return verifNode(verifMTH(leaves[:k]), verifMTH(leaves[k:]))
}

func verifSymLeaves(n int) (payloads, leaves [][sha256.Size]byte) {
	payloads = make([][sha256.Size]byte, n)
	leaves = make([][sha256.Size]byte, n)
	for k := 0; k < n; k++ {
		payloads[k] = verifrt.Digest("payload")
		leaves[k] = verifLeaf(payloads[k])
	}
	return
}

func verifSymProof(n int) [][sha256.Size]byte {
	p := make([][sha256.Size]byte, n)
	for k := 0; k < n; k++ {
		p[k] = verifrt.Digest("term")
	}
	return p
}

// VerifH_InclusionBinding: against the honest root of a tree of size j, VerifyInclusion accepts
// (proof, i, j, leaf(q)) only if 1<=i<=j and q is the payload of the i-th leaf.
// Everything hashed is symbolic; i is symbolic; j and the proof length are shape parameters.
func VerifH_InclusionBinding() {
	j := verifrt.Param("j")
	plen := verifrt.Param("plen")
	payloads, leaves := verifSymLeaves(j)
	jRoot := verifMTH(leaves)
	proof := verifSymProof(plen)
	q := verifrt.Digest("q")
	i := verifrt.U64("i")
	ok := VerifyInclusion(proof, i, uint64(j), verifLeaf(q), jRoot)
	if !ok {
		return
	}
	verifrt.Reach("accepted")
	verifrt.Assert(i >= 1 && i <= uint64(j), "position in range")
	for k := 1; k <= j; k++ {
		if i == uint64(k) {
			verifrt.Assert(q == payloads[k-1], "leaf is the i-th leaf")
		}
	}
}

// VerifH_ConsistencyBinding: against the honest root of size j, VerifyConsistency accepts
// (proof, i, j, iRoot) only if 1<=i<=j and iRoot is the honest root of size i.
func VerifH_ConsistencyBinding() {
	j := verifrt.Param("j")
	plen := verifrt.Param("plen")
	_, leaves := verifSymLeaves(j)
	jRoot := verifMTH(leaves)
	proof := verifSymProof(plen)
	iRoot := verifrt.Digest("iRoot")
	i := verifrt.U64("i")
	ok := VerifyConsistency(proof, i, uint64(j), iRoot, jRoot)
	if !ok {
		return
	}
	verifrt.Reach("accepted")
	verifrt.Assert(i >= 1 && i <= uint64(j), "size in range")
	for k := 1; k <= j; k++ {
		if i == uint64(k) {
			verifrt.Assert(iRoot == verifMTH(leaves[:k]), "iRoot is the honest root of size i")
		}
	}
}

// VerifH_LastInclusionBinding: against the honest root of size i, VerifyLastInclusion accepts
// leaf(q) only if q is the payload of the last leaf.
func VerifH_LastInclusionBinding() {
	i := verifrt.Param("i")
	plen := verifrt.Param("plen")
	payloads, leaves := verifSymLeaves(i)
	root := verifMTH(leaves)
	proof := verifSymProof(plen)
	q := verifrt.Digest("q")
	ok := VerifyLastInclusion(proof, uint64(i), verifLeaf(q), root)
	if !ok {
		return
	}
	verifrt.Reach("accepted")
	verifrt.Assert(q == payloads[i-1], "leaf is the last leaf")
}
