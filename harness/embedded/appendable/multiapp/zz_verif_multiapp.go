//go:build verif

package multiapp

import (
	"bytes"
	"io"
	"os"
	"path/filepath"

	"github.com/codenotary/immudb/embedded/appendable"
	"github.com/codenotary/immudb/embedded/appendable/singleapp"
	"github.com/codenotary/immudb/embedded/cache"
	"github.com/codenotary/immudb/embedded/verifrt"
)

// verifChunk is an in-memory chunk (what a single-file appendable is to the multi-file one).
type verifChunk struct {
	b      []byte
	off    int64
	closed int
}

func (a *verifChunk) Metadata() []byte     { return nil }
func (a *verifChunk) Size() (int64, error) { return int64(len(a.b)), nil }
func (a *verifChunk) Offset() int64        { return a.off }
func (a *verifChunk) SetOffset(off int64) error {
	if off > int64(len(a.b)) {
		return io.EOF
	}
	a.off = off
	a.b = a.b[:off]
	return nil
}
func (a *verifChunk) DiscardUpto(off int64) error { return nil }
func (a *verifChunk) Append(bs []byte) (off int64, n int, err error) {
	off = a.off
	a.b = append(a.b[:a.off], bs...)
	a.off += int64(len(bs))
	return off, len(bs), nil
}
func (a *verifChunk) Flush() error                { return nil }
func (a *verifChunk) Sync() error                 { return nil }
func (a *verifChunk) SwitchToReadOnlyMode() error { return nil }
func (a *verifChunk) ReadAt(bs []byte, off int64) (int, error) {
	if off < 0 || off >= int64(len(a.b)) {
		return 0, io.EOF
	}
	n := copy(bs, a.b[off:])
	if n < len(bs) {
		return n, io.EOF
	}
	return n, nil
}
func (a *verifChunk) Close() error              { a.closed++; return nil }
func (a *verifChunk) Copy(dstPath string) error { return nil }
func (a *verifChunk) CompressionFormat() int    { return appendable.NoCompression }
func (a *verifChunk) CompressionLevel() int     { return 0 }

// verifHooks serves chunks by file name through the real hook interface.
type verifHooks struct {
	names  []string
	chunks []*verifChunk
	ext    string
	dir    string // chunk files exist as (empty) files under dir: os.Remove of a chunk file is observable
}

func (h *verifHooks) lookup(name string) *verifChunk {
	for i, n := range h.names {
		if n == name {
			return h.chunks[i]
		}
	}
	return nil
}

func (h *verifHooks) OpenAppendable(options *singleapp.Options, appname string, needsWriteAccess bool) (appendable.Appendable, error) {
	file := filepath.Join(h.dir, appname)
	if c := h.lookup(appname); c != nil && verifrt.FileExists(file) {
		// a reopened chunk continues from the bytes it holds
		c.off = int64(len(c.b))
		return c, nil
	}
	if !needsWriteAccess {
		return nil, os.ErrNotExist
	}
	// a chunk file that was removed is gone for good: a new empty one takes its name
	c := &verifChunk{}
	h.names = append([]string{appname}, h.names...)
	h.chunks = append([]*verifChunk{c}, h.chunks...)
	verifrt.TouchFile(file)
	return c, nil
}

func (h *verifHooks) OpenInitialAppendable(opts *Options, singleAppOpts *singleapp.Options) (appendable.Appendable, int64, error) {
	a, err := h.OpenAppendable(singleAppOpts, appendableName(0, h.ext), true)
	return a, 0, err
}

func verifNewMultiApp(fileSize, maxOpen int) (*MultiFileAppendable, *verifHooks) {
	h := &verifHooks{ext: "x", dir: verifrt.TempDir()}
	first, _, _ := h.OpenInitialAppendable(nil, nil)
	c, err := cache.NewCache(maxOpen)
	verifrt.Assume(err == nil)
	return &MultiFileAppendable{
		appendables:       appendableCache{cache: c},
		currAppID:         0,
		currApp:           first,
		path:              h.dir,
		fileSize:          fileSize,
		fileExt:           "x",
		hooks:             h,
		prefetchPrevAppID: -1,
	}, h
}

// VerifH_MultiAppSequence: a multi-file appendable behaves as one growable byte array.
// Chunk size, cache size (max open files) and the operation kinds are shape parameters; payloads,
// payload lengths (1..maxlen), rewind offsets and read ranges are symbolic.
// op kinds: 1=append 2=set-offset 3=read 4=discard-upto 0=none
func VerifH_MultiAppSequence() {
	fileSize := verifrt.Param("chunk")
	maxOpen := verifrt.Param("open")
	ops := []int{verifrt.Param("op1"), verifrt.Param("op2"), verifrt.Param("op3"), verifrt.Param("op4")}
	mf, _ := verifNewMultiApp(fileSize, maxOpen)
	var model []byte
	rewound := false
	floor := int64(0) // bytes below the highest discard offset are no longer guaranteed readable
	for _, op := range ops {
		switch op {
		case 1:
			bs := verifrt.BytesUpTo("data", verifrt.Param("maxlen"))
			verifrt.Assume(len(bs) >= 1)
			off, n, err := mf.Append(bs)
			verifrt.Assert(err == nil, "append succeeds")
			verifrt.Assert(off == int64(len(model)), "append returns the previous size as offset")
			verifrt.Assert(n == len(bs), "append writes everything")
			model = append(model, bs...)
		case 2:
			o := verifrt.I64("rewind")
			verifrt.Assume(o >= floor && o <= int64(len(model))) // rewinding into discarded data is outside the claim
			err := mf.SetOffset(o)
			verifrt.Assert(err == nil, "set-offset to an earlier offset succeeds")
			model = model[:o]
			rewound = true
		case 3:
			verifReadBack(mf, model, rewound, floor)
		case 4:
			o := verifrt.I64("discard")
			verifrt.Assume(o >= 0 && o <= int64(len(model)))
			err := mf.DiscardUpto(o)
			verifrt.Assert(err == nil, "discard succeeds")
			// bytes at or after the discard offset are unaffected
			if o < int64(len(model)) {
				buf := make([]byte, int64(len(model))-o)
				n, err := mf.ReadAt(buf, o)
				verifrt.Assert(err == nil && n == len(buf), "read after discard succeeds")
				verifrt.Assert(bytes.Equal(buf, model[o:]), "bytes at or after the discard offset unchanged")
			}
			if o > floor {
				floor = o
			}
			verifrt.Reach("discarded")
		}
		sz, err := mf.Size()
		verifrt.Assert(err == nil && sz == int64(len(model)), "size is the model size")
		verifrt.Assert(mf.Offset() == int64(len(model)), "offset is the model size")
	}
	verifReadBack(mf, model, rewound, floor)
	verifrt.Reach("done")
}

func verifReadBack(mf *MultiFileAppendable, model []byte, rewound bool, floor int64) {
	if int64(len(model)) <= floor {
		return
	}
	// a read of symbolic position/length inside the log returns the model bytes
	o := verifrt.I64("roff")
	l := verifrt.I64("rlen")
	verifrt.Assume(o >= floor && o < int64(len(model)) && l >= 1 && l <= int64(len(model))-o)
	buf := make([]byte, l)
	n, err := mf.ReadAt(buf, o)
	verifrt.Assert(err == nil && int64(n) == l, "read inside the log succeeds")
	verifrt.Assert(bytes.Equal(buf, model[o:o+l]), "read returns the bytes last written")
	verifrt.Reach("read back")
	if rewound {
		// after a rewind the bytes beyond the logical end are unspecified until overwritten
		// (neither appendable truncates on SetOffset), so EOF at the end is not required
		return
	}
	// a read crossing the end reports EOF after the available bytes
	buf2 := make([]byte, 2)
	n, err = mf.ReadAt(buf2, int64(len(model))-1)
	verifrt.Assert(n == 1 && err == io.EOF && buf2[0] == model[len(model)-1], "read across the end: partial + EOF")
}
