//go:build verif

package multiapp

import (
	"bytes"
	"io"
	"os"

	"github.com/codenotary/immudb/embedded/appendable"
	"github.com/codenotary/immudb/embedded/appendable/singleapp"
	"github.com/codenotary/immudb/embedded/cache"
	"github.com/codenotary/immudb/embedded/verifrt"
)

// verifChunk is an in-memory chunk (what a single-file appendable is to the multi-file one).
type verifChunk struct {
	b      []byte
	off    int64
	closed int
}

func (a *verifChunk) Metadata() []byte     { return nil }
func (a *verifChunk) Size() (int64, error) { return int64(len(a.b)), nil }
func (a *verifChunk) Offset() int64        { return a.off }
func (a *verifChunk) SetOffset(off int64) error {
	if off > int64(len(a.b)) {
		return io.EOF
	}
	a.off = off
	a.b = a.b[:off]
	return nil
}
func (a *verifChunk) DiscardUpto(off int64) error { return nil }
func (a *verifChunk) Append(bs []byte) (off int64, n int, err error) {
	off = a.off
	a.b = append(a.b[:a.off], bs...)
	a.off += int64(len(bs))
	return off, len(bs), nil
}
func (a *verifChunk) Flush() error                { return nil }
func (a *verifChunk) Sync() error                 { return nil }
func (a *verifChunk) SwitchToReadOnlyMode() error { return nil }
func (a *verifChunk) ReadAt(bs []byte, off int64) (int, error) {
	if off < 0 || off >= int64(len(a.b)) {
		return 0, io.EOF
	}
	n := copy(bs, a.b[off:])
	if n < len(bs) {
		return n, io.EOF
	}
	return n, nil
}
func (a *verifChunk) Close() error              { a.closed++; return nil }
func (a *verifChunk) Copy(dstPath string) error { return nil }
func (a *verifChunk) CompressionFormat() int    { return appendable.NoCompression }
func (a *verifChunk) CompressionLevel() int     { return 0 }

// verifHooks serves chunks by file name through the real hook interface.
type verifHooks struct {
	names  []string
	chunks []*verifChunk
	ext    string
}

func (h *verifHooks) lookup(name string) *verifChunk {
	for i, n := range h.names {
		if n == name {
			return h.chunks[i]
		}
	}
	return nil
}

func (h *verifHooks) OpenAppendable(options *singleapp.Options, appname string, needsWriteAccess bool) (appendable.Appendable, error) {
	if c := h.lookup(appname); c != nil {
		// a reopened chunk continues from the bytes it holds
		c.off = int64(len(c.b))
		return c, nil
	}
	if !needsWriteAccess {
		return nil, os.ErrNotExist
	}
	c := &verifChunk{}
	h.names = append(h.names, appname)
	h.chunks = append(h.chunks, c)
	return c, nil
}

func (h *verifHooks) OpenInitialAppendable(opts *Options, singleAppOpts *singleapp.Options) (appendable.Appendable, int64, error) {
	a, err := h.OpenAppendable(singleAppOpts, appendableName(0, h.ext), true)
	return a, 0, err
}

func verifNewMultiApp(fileSize, maxOpen int) (*MultiFileAppendable, *verifHooks) {
	h := &verifHooks{ext: "x"}
	first, _, _ := h.OpenInitialAppendable(nil, nil)
	c, err := cache.NewCache(maxOpen)
	verifrt.Assume(err == nil)
	return &MultiFileAppendable{
		appendables:       appendableCache{cache: c},
		currAppID:         0,
		currApp:           first,
		path:              "/tmp", // exists, holds no chunk files: Remove/SyncDir are harmless
		fileSize:          fileSize,
		fileExt:           "x",
		hooks:             h,
		prefetchPrevAppID: -1,
	}, h
}

// VerifH_MultiAppSequence: a multi-file appendable behaves as one growable byte array.
// Chunk size, cache size (max open files) and the operation kinds are shape parameters; payloads,
// payload lengths (1..maxlen), rewind offsets and read ranges are symbolic.
// op kinds: 1=append 2=set-offset 3=read 4=discard-upto 0=none
func VerifH_MultiAppSequence() {
	fileSize := verifrt.Param("chunk")
	maxOpen := verifrt.Param("open")
	ops := []int{verifrt.Param("op1"), verifrt.Param("op2"), verifrt.Param("op3"), verifrt.Param("op4")}
	mf, _ := verifNewMultiApp(fileSize, maxOpen)
	var model []byte
	rewound := false
	for _, op := range ops {
		switch op {
		case 1:
			bs := verifrt.BytesUpTo("data", verifrt.Param("maxlen"))
			verifrt.Assume(len(bs) >= 1)
			off, n, err := mf.Append(bs)
			verifrt.Assert(err == nil, "append succeeds")
			verifrt.Assert(off == int64(len(model)), "append returns the previous size as offset")
			verifrt.Assert(n == len(bs), "append writes everything")
			model = append(model, bs...)
		case 2:
			o := verifrt.I64("rewind")
			verifrt.Assume(o >= 0 && o <= int64(len(model)))
			err := mf.SetOffset(o)
			verifrt.Assert(err == nil, "set-offset to an earlier offset succeeds")
			model = model[:o]
			rewound = true
		case 3:
			verifReadBack(mf, model, rewound)
		case 4:
			o := verifrt.I64("discard")
			verifrt.Assume(o >= 0 && o <= int64(len(model)))
			err := mf.DiscardUpto(o)
			verifrt.Assert(err == nil, "discard succeeds")
			// bytes at or after the discard offset are unaffected
			if o < int64(len(model)) {
				buf := make([]byte, int64(len(model))-o)
				n, err := mf.ReadAt(buf, o)
				verifrt.Assert(err == nil && n == len(buf), "read after discard succeeds")
				verifrt.Assert(bytes.Equal(buf, model[o:]), "bytes at or after the discard offset unchanged")
			}
			verifrt.Reach("discarded")
		}
		sz, err := mf.Size()
		verifrt.Assert(err == nil && sz == int64(len(model)), "size is the model size")
		verifrt.Assert(mf.Offset() == int64(len(model)), "offset is the model size")
	}
	verifReadBack(mf, model, rewound)
	verifrt.Reach("done")
}

func verifReadBack(mf *MultiFileAppendable, model []byte, rewound bool) {
	if len(model) == 0 {
		return
	}
	// a read of symbolic position/length inside the log returns the model bytes
	o := verifrt.I64("roff")
	l := verifrt.I64("rlen")
	verifrt.Assume(o >= 0 && o < int64(len(model)) && l >= 1 && l <= int64(len(model))-o)
	buf := make([]byte, l)
	n, err := mf.ReadAt(buf, o)
	verifrt.Assert(err == nil && int64(n) == l, "read inside the log succeeds")
	verifrt.Assert(bytes.Equal(buf, model[o:o+l]), "read returns the bytes last written")
	verifrt.Reach("read back")
	if rewound {
		// after a rewind the bytes beyond the logical end are unspecified until overwritten
		// (neither appendable truncates on SetOffset), so EOF at the end is not required
		return
	}
	// a read crossing the end reports EOF after the available bytes
	buf2 := make([]byte, 2)
	n, err = mf.ReadAt(buf2, int64(len(model))-1)
	verifrt.Assert(n == 1 && err == io.EOF && buf2[0] == model[len(model)-1], "read across the end: partial + EOF")
}
