//go:build verif

package singleapp

import (
	"bytes"
	"errors"
	"os"

	"github.com/codenotary/immudb/embedded/verifrt"
)

var verifSyncFailure = errors.New("fsync failed")

// VerifH_SingleAppSequence: the single-file appendable refines one growable byte array, and what
// it reports as flushed / synced really is in the file.
// The appendable sits on a real *os.File (executor: byte-array model of the file) after a header
// of `base` bytes, with a write buffer of `wbuf` bytes, in plain or retryable-sync mode (with or
// without auto-sync). A sequence of operations (kinds are shape parameters; payload bytes, rewind
// offsets, read ranges and fsync outcomes are symbolic):
//   1 append (payload of concrete length 1..3)   2 set-offset (rewind)   3 read
//   4 flush   5 sync (fsync may fail when injected)
// After every step: Size/Offset equal the model length; reads of any range inside the log return
// the model bytes (whether they still sit in the buffer or already in the file); after a
// successful Flush (plain mode) or Sync every byte of the log is in the file at base+offset; a
// failed fsync leaves the log intact and a later successful Sync makes it durable.
func VerifH_SingleAppSequence() {
	wbuf, base := verifrt.Param("wbuf"), verifrt.Param("base")
	retryable, autoSync := verifrt.Param("retryable") == 1, verifrt.Param("autosync") == 1
	ops := []int{verifrt.Param("op1"), verifrt.Param("op2"), verifrt.Param("op3"), verifrt.Param("op4")}
	lens := []int{verifrt.Param("l1"), verifrt.Param("l2"), verifrt.Param("l3"), verifrt.Param("l4")}
	f := verifrt.NewFile()
	hdr := verifrt.Bytes("header", base)
	if base > 0 {
		_, err := f.Write(hdr)
		verifrt.Assume(err == nil)
	}
	syncFails := false
	verifrt.Stub("embedded/appendable/fileutils.Fdatasync", func(f *os.File) error {
		if syncFails {
			return verifSyncFailure
		}
		return f.Sync()
	})
	aof := &AppendableFile{f: f, fileBaseOffset: int64(base), writeBuffer: make([]byte, wbuf),
		retryableSync: retryable, autoSync: autoSync, preallocSize: 1}
	var model []byte
	inFile := func(label string) {
		if len(model) == 0 {
			return
		}
		got := make([]byte, len(model))
		n, err := f.ReadAt(got, int64(base))
		verifrt.Assert(err == nil && n == len(model) && bytes.Equal(got, model), label)
	}
	for i, op := range ops {
		switch op {
		case 1:
			bs := verifrt.Bytes("data", lens[i])
			syncFails = autoSync && retryable && verifrt.Bool("autoSyncFails")
			off, n, err := aof.Append(bs)
			if err != nil {
				// the only legitimate refusals: the buffer is full and must be synced first
				// (retryable mode without auto-sync), or the injected fsync failure
				verifrt.Assert(retryable && (!autoSync || syncFails), "append fails only for a full buffer awaiting sync or a failed auto-sync")
				verifrt.Assert(off == int64(len(model)) && n >= 0 && n <= len(bs), "partial append reports what was taken")
				model = append(model, bs[:n]...)
				verifrt.Reach("append refused")
			} else {
				verifrt.Assert(off == int64(len(model)) && n == len(bs), "append returns the previous size and takes everything")
				model = append(model, bs...)
			}
			syncFails = false
		case 2:
			o := verifrt.I64("rewind")
			verifrt.Assume(o >= 0 && o <= int64(len(model)))
			verifrt.Assert(aof.SetOffset(o) == nil, "rewind succeeds")
			model = model[:o]
		case 3:
			verifSingleReadBack(aof, model)
		case 4:
			err := aof.Flush()
			verifrt.Assert(err == nil, "flush succeeds")
			inFile("after Flush every byte of the log is in the file")
			verifrt.Reach("flushed")
		case 5:
			syncFails = verifrt.Bool("syncFails")
			err := aof.Sync()
			if syncFails {
				verifrt.Assert(err != nil, "a failed fsync is reported")
				verifrt.Reach("sync failed")
			} else {
				verifrt.Assert(err == nil, "sync succeeds")
				inFile("after Sync every byte of the log is in the file")
				verifrt.Reach("synced")
			}
			syncFails = false
		}
		sz, err := aof.Size()
		verifrt.Assert(err == nil && sz == int64(len(model)) && aof.Offset() == int64(len(model)), "size and offset are the model length")
	}
	verifSingleReadBack(aof, model)
	// whatever happened before, a final successful Sync makes the whole log durable
	verifrt.Assert(aof.Sync() == nil, "final sync succeeds")
	inFile("after the final Sync every byte of the log is in the file")
	hdr2 := make([]byte, base)
	if base > 0 {
		n, err := f.ReadAt(hdr2, 0)
		verifrt.Assert(err == nil && n == base && bytes.Equal(hdr2, hdr), "the header before the log is never touched")
	}
	verifrt.Reach("done")
}

func verifSingleReadBack(aof *AppendableFile, model []byte) {
	if len(model) == 0 {
		return
	}
	o, l := verifrt.I64("roff"), verifrt.I64("rlen")
	verifrt.Assume(o >= 0 && o < int64(len(model)) && l >= 1 && l <= int64(len(model))-o)
	buf := make([]byte, l)
	n, err := aof.ReadAt(buf, o)
	verifrt.Assert(err == nil && int64(n) == l, "read inside the log succeeds")
	verifrt.Assert(bytes.Equal(buf, model[o:o+l]), "read returns the bytes last written")
	verifrt.Reach("read back")
}
