//go:build verif

package htree

import (
	"crypto/sha256"

	"github.com/codenotary/immudb/embedded/verifrt"
)

func verifNode(l, r [sha256.Size]byte) [sha256.Size]byte {
	var b [1 + 2*sha256.Size]byte
	b[0] = NodePrefix
	copy(b[1:], l[:])
	copy(b[1+sha256.Size:], r[:])
	return sha256.Sum256(b[:])
}

func verifLeaf(d [sha256.Size]byte) [sha256.Size]byte {
	var b [1 + sha256.Size]byte
	b[0] = LeafPrefix
	copy(b[1:], d[:])
	return sha256.Sum256(b[:])
}

// verifMTH is the reference Merkle tree hash over entry digests (RFC 6962 shape).
func verifMTH(digests [][sha256.Size]byte) [sha256.Size]byte {
	n := len(digests)
	if n == 1 {
		return verifLeaf(digests[0])
	}
	k := 1
	for k*2 < n {
		k *= 2
	}
	return verifNode(verifMTH(digests[:k]), verifMTH(digests[k:]))
}

func verifSymDigests(n int) [][sha256.Size]byte {
	d := make([][sha256.Size]byte, n)
	for k := 0; k < n; k++ {
		d[k] = verifrt.Digest("digest")
	}
	return d
}

// VerifH_RootIsReference: BuildWith computes the reference root for width w (maxWidth >= w),
// and every generated inclusion proof verifies.
func VerifH_RootIsReference() {
	w := verifrt.Param("w")
	slack := verifrt.Param("slack")
	digests := verifSymDigests(w)
	t, err := New(w + slack)
	verifrt.Assert(err == nil, "New")
	err = t.BuildWith(digests)
	verifrt.Assert(err == nil, "BuildWith")
	verifrt.Assert(t.Root() == verifMTH(digests), "root equals reference MTH")
	verifrt.Reach("built")
	for i := 0; i < w; i++ {
		proof, err := t.InclusionProof(i)
		verifrt.Assert(err == nil, "proof generated")
		verifrt.Assert(proof.Leaf == i && proof.Width == w, "proof positions")
		verifrt.Assert(VerifyInclusion(proof, digests[i], t.Root()), "generated proof verifies")
	}
	_, err = t.InclusionProof(w)
	verifrt.Assert(err != nil, "out-of-range leaf rejected")
	// rebuilding with fewer digests gives the reference root of the new sequence
	if w > 1 {
		err = t.BuildWith(digests[1:])
		verifrt.Assert(err == nil, "rebuild")
		verifrt.Assert(t.Root() == verifMTH(digests[1:]), "root after rebuild equals reference")
	}
}

// VerifH_TooManyDigests: more digests than maxWidth is an error, not a panic.
func VerifH_TooManyDigests() {
	w := verifrt.Param("w")
	digests := verifSymDigests(w + 1)
	t, _ := New(w)
	err := t.BuildWith(digests)
	verifrt.Assert(err != nil, "rejected")
	verifrt.Reach("rejected")
}

// VerifH_InclusionBinding: against the reference root of width w, VerifyInclusion accepts
// (Leaf, Width, terms, d) only if d is one of the tree's digests, and - when the claimed
// Width is the tree's width - only if 0<=Leaf<w and d is the Leaf-th digest.
// Leaf and Width are fully symbolic ints; the number of terms is a shape parameter.
// (An inclusion proof cannot bind the tree size by itself: the path of leaf 0 has the same
// shape for widths 5..8. immudb binds the width through NEntries in the tx header hash.)
func VerifH_InclusionBinding() {
	w := verifrt.Param("w")
	nterms := verifrt.Param("nterms")
	digests := verifSymDigests(w)
	root := verifMTH(digests)
	terms := make([][sha256.Size]byte, nterms)
	for k := range terms {
		terms[k] = verifrt.Digest("term")
	}
	proof := &InclusionProof{Leaf: verifrt.Int("leaf"), Width: verifrt.Int("width"), Terms: terms}
	d := verifrt.Digest("d")
	if !VerifyInclusion(proof, d, root) {
		return
	}
	verifrt.Reach("accepted")
	member := false
	for k := 0; k < w; k++ {
		member = member || d == digests[k]
	}
	verifrt.Assert(member, "accepted digest is one of the tree's digests")
	if proof.Width == w {
		verifrt.Reach("accepted with the true width")
		verifrt.Assert(proof.Leaf >= 0 && proof.Leaf < w, "leaf in range")
		for k := 0; k < w; k++ {
			if proof.Leaf == k {
				verifrt.Assert(d == digests[k], "digest is the Leaf-th digest")
			}
		}
	}
}

// VerifH_NilProof: a nil proof is rejected.
func VerifH_NilProof() {
	verifrt.Assert(!VerifyInclusion(nil, verifrt.Digest("d"), verifrt.Digest("r")), "nil proof rejected")
	verifrt.Reach("done")
}
