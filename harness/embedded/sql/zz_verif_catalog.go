//go:build verif

package sql

import (
	"github.com/codenotary/immudb/embedded/verifrt"
)

// verifCatalogFingerprint lists the observable content of a catalog (every lookup structure).
func verifCatalogFingerprint(c *Catalog) []string {
	var out []string
	add := func(s string) { out = append(out, s) }
	for _, t := range c.tables {
		add("table:" + t.name)
		if c.tablesByName[t.name] != t || c.tablesByID[t.id] != t {
			add("table-lookup-broken:" + t.name)
		}
		for _, col := range t.cols {
			add("col:" + col.colName + ":" + string(col.colType))
			if t.colsByName[col.colName] != col || t.colsByID[col.id] != col {
				add("col-lookup-broken:" + col.colName)
			}
		}
		for _, probe := range []string{"id", "v", "w", "x"} {
			if _, ok := t.colsByName[probe]; ok {
				add("colByName:" + probe)
			}
		}
		for _, idx := range t.indexes {
			add("index:" + idx.Name())
			if t.indexesByName[idx.Name()] != idx {
				add("index-lookup-broken:" + idx.Name())
			}
		}
		for _, probe := range []string{"ck1", "ck2"} {
			if _, ok := t.checkConstraints[probe]; ok {
				add("check:" + probe)
			}
		}
		for id := uint32(1); id <= 4; id++ {
			for range t.indexesByColID[id] {
				add("indexOnCol")
			}
		}
	}
	for _, probe := range []string{"t", "u", "n"} {
		if _, ok := c.tablesByName[probe]; ok {
			add("tableByName:" + probe)
		}
	}
	return out
}

// VerifH_CatalogCloneIsolation: the catalog a SQL transaction works on is a clone of the
// engine's cached catalog; whatever DDL the transaction performs on its clone (every mutator the
// statements use: drop constraint, rename/add/drop column, add/drop index, rename/add table;
// the one applied is symbolic) leaves every lookup structure of the ORIGINAL catalog as it was --
// so an open or rolled-back transaction can never change what other transactions enforce.
func VerifH_CatalogCloneIsolation() {
	// virtual system tables (pg_type ...) are not installed: their registry is sorted via reflection
	verifrt.Stub("embedded/sql.registeredSystemTables", func() []*SystemTableDef { return nil })
	orig := newCatalog([]byte("e."))
	checks := map[string]CheckConstraint{
		"ck1": {id: 1, name: "ck1", exp: &Bool{val: true}},
		"ck2": {id: 2, name: "ck2", exp: &Bool{val: true}},
	}
	t, err := orig.newTable("t", map[uint32]*ColSpec{
		1: {colName: "id", colType: IntegerType},
		2: {colName: "v", colType: IntegerType},
		3: {colName: "w", colType: VarcharType, maxLen: 8},
	}, checks, 3)
	verifrt.Assert(err == nil, "table created")
	_, err = t.newIndex(true, []uint32{1})
	verifrt.Assert(err == nil, "primary index")
	_, err = t.newIndex(false, []uint32{2})
	verifrt.Assert(err == nil, "secondary index")
	before := verifCatalogFingerprint(orig)
	maxCol, maxIdx, maxTab := t.maxColID, t.maxIndexID, orig.maxTableID

	cp := orig.Clone()
	verifrt.Assert(len(verifCatalogFingerprint(cp)) == len(before), "clone has the same content")
	ct, err := cp.GetTableByName("t")
	verifrt.Assert(err == nil && ct != t, "clone has its own table object")
	switch verifrt.Byte("ddl") % 8 {
	case 0:
		_, err = ct.deleteCheck("ck1")
	case 1:
		_, err = ct.renameColumn("w", "x")
	case 2:
		_, err = ct.newColumn(&ColSpec{colName: "x", colType: IntegerType})
	case 3:
		err = ct.deleteIndex(ct.indexes[1])
	case 4:
		_, err = cp.renameTable("t", "u")
	case 5:
		err = ct.deleteColumn(ct.colsByName["w"])
	case 6:
		_, err = ct.newIndex(false, []uint32{3})
	default:
		_, err = cp.newTable("n", map[uint32]*ColSpec{1: {colName: "id", colType: IntegerType}}, nil, 1)
	}
	verifrt.Assert(err == nil, "DDL applied to the clone")
	verifrt.Reach("ddl applied")
	after := verifCatalogFingerprint(orig)
	verifrt.Assert(len(after) == len(before), "original catalog content unchanged (size)")
	for i := range before {
		if i < len(after) {
			verifrt.Assert(after[i] == before[i], "original catalog content unchanged")
		}
	}
	verifrt.Assert(t.maxColID == maxCol && t.maxIndexID == maxIdx && orig.maxTableID == maxTab, "original id counters unchanged")
	verifrt.Assert(t.catalog == orig && ct.catalog == cp, "back references stay within their catalog")
	for _, col := range ct.cols {
		verifrt.Assert(col.table == ct, "cloned columns point to the cloned table")
	}
	for _, idx := range ct.indexes {
		verifrt.Assert(idx.table == ct, "cloned indexes point to the cloned table")
	}
}
