//go:build verif

package sql

import (
	"bytes"
	"math"
	"time"

	"github.com/codenotary/immudb/embedded/verifrt"
	"github.com/google/uuid"
)

func verifSign(c int) int {
	if c < 0 {
		return -1
	}
	if c > 0 {
		return 1
	}
	return 0
}

// verifKeyOrder checks, for two values of one type: both encode; the byte order of the keys
// agrees with the SQL comparison; equal values encode identically; NULL sorts first; the key
// decodes back to an equal value.
func verifKeyOrder(a, b TypedValue, t SQLValueType, maxLen int) {
	ka, _, err := EncodeValueAsKey(a, t, maxLen)
	verifrt.Assert(err == nil, "encodes a")
	kb, _, err := EncodeValueAsKey(b, t, maxLen)
	verifrt.Assert(err == nil, "encodes b")
	verifrt.Reach("encoded")
	cmp, err := a.Compare(b)
	verifrt.Assert(err == nil, "comparable")
	kc := bytes.Compare(ka, kb)
	verifrt.Assert(verifSign(cmp) == verifSign(kc), "key order agrees with SQL comparison")
	verifrt.Assert((cmp == 0) == bytes.Equal(ka, kb), "equal values encode identically")
	kn, _, err := EncodeValueAsKey(&NullValue{t: t}, t, maxLen)
	verifrt.Assert(err == nil, "encodes NULL")
	verifrt.Assert(bytes.Compare(kn, ka) < 0, "NULL sorts before every value")
	d, n, err := DecodeValueFromKey(ka, t, maxLen)
	verifrt.Assert(err == nil && n == len(ka), "key decodes")
	c2, err := d.Compare(a)
	verifrt.Assert(err == nil && c2 == 0, "key round trip")
}

// verifValueRoundTrip: decode(encode(v)) == v in the row-value form (nullable and not).
func verifValueRoundTrip(a TypedValue, t SQLValueType, maxLen int) {
	enc, err := EncodeValue(a, t, maxLen)
	verifrt.Assert(err == nil, "value encodes")
	d, n, err := DecodeValue(enc, t)
	verifrt.Assert(err == nil && n == len(enc), "value decodes")
	c, err := d.Compare(a)
	verifrt.Assert(err == nil && c == 0, "value round trip")
	verifrt.Reach("value round trip")
	// nullable form (used by the ORDER BY file sorter)
	enc, err = EncodeNullableValue(a, t, -1)
	verifrt.Assert(err == nil, "nullable value encodes")
	d, n, err = DecodeNullableValue(enc, t)
	verifrt.Assert(err == nil && n == len(enc), "nullable value decodes")
	verifrt.Assert(!d.IsNull(), "non-NULL value does not decode as NULL")
	if !d.IsNull() {
		c, err = d.Compare(a)
		verifrt.Assert(err == nil && c == 0, "nullable value round trip")
	}
}

func VerifH_IntegerCodec() {
	a, b := &Integer{val: verifrt.I64("a")}, &Integer{val: verifrt.I64("b")}
	verifKeyOrder(a, b, IntegerType, 8)
	verifValueRoundTrip(a, IntegerType, 0)
}

func VerifH_BoolCodec() {
	a, b := &Bool{val: verifrt.Bool("a")}, &Bool{val: verifrt.Bool("b")}
	verifKeyOrder(a, b, BooleanType, 1)
	verifValueRoundTrip(a, BooleanType, 0)
}

func VerifH_VarcharCodec() {
	maxLen := verifrt.Param("maxLen")
	a := &Varchar{val: string(verifrt.Bytes("a", verifrt.Param("la")))}
	b := &Varchar{val: string(verifrt.Bytes("b", verifrt.Param("lb")))}
	if len(a.val) > maxLen || len(b.val) > maxLen {
		_, _, err := EncodeValueAsKey(a, VarcharType, maxLen)
		_, _, err2 := EncodeValueAsKey(b, VarcharType, maxLen)
		verifrt.Assert(err != nil || err2 != nil, "over-long value rejected (key)")
		var err3 error
		if len(a.val) > maxLen {
			_, err3 = EncodeValue(a, VarcharType, maxLen)
			verifrt.Assert(err3 != nil, "over-long value rejected (value)")
		}
		verifrt.Reach("rejected")
		return
	}
	verifKeyOrder(a, b, VarcharType, maxLen)
	verifValueRoundTrip(a, VarcharType, maxLen)
}

func VerifH_BlobCodec() {
	maxLen := verifrt.Param("maxLen")
	a := &Blob{val: verifrt.Bytes("a", verifrt.Param("la"))}
	b := &Blob{val: verifrt.Bytes("b", verifrt.Param("lb"))}
	if len(a.val) > maxLen || len(b.val) > maxLen {
		_, _, err := EncodeValueAsKey(a, BLOBType, maxLen)
		_, _, err2 := EncodeValueAsKey(b, BLOBType, maxLen)
		verifrt.Assert(err != nil || err2 != nil, "over-long value rejected (key)")
		verifrt.Reach("rejected")
		return
	}
	verifKeyOrder(a, b, BLOBType, maxLen)
	verifValueRoundTrip(a, BLOBType, maxLen)
}

func VerifH_UUIDCodec() {
	var ua, ub uuid.UUID
	copy(ua[:], verifrt.Bytes("a", 16))
	copy(ub[:], verifrt.Bytes("b", 16))
	a, b := &UUID{val: ua}, &UUID{val: ub}
	verifKeyOrder(a, b, UUIDType, 16)
	verifValueRoundTrip(a, UUIDType, 0)
}

func VerifH_Float64Codec() {
	fa, fb := math.Float64frombits(verifrt.U64("a")), math.Float64frombits(verifrt.U64("b"))
	verifrt.Assume(!math.IsNaN(fa) && !math.IsNaN(fb)) // NaN is not an SQL value the engine produces
	a, b := &Float64{val: fa}, &Float64{val: fb}
	verifKeyOrder(a, b, Float64Type, 8)
	verifValueRoundTrip(a, Float64Type, 0)
}

// VerifH_Float64CodecNoSignedZero is the carve-out twin of VerifH_Float64Codec: it excludes
// exactly the pairs made of zeros of opposite sign (known finding).
func VerifH_Float64CodecNoSignedZero() {
	ba, bb := verifrt.U64("a"), verifrt.U64("b")
	fa, fb := math.Float64frombits(ba), math.Float64frombits(bb)
	verifrt.Assume(!math.IsNaN(fa) && !math.IsNaN(fb))
	verifrt.Assume(!(fa == 0 && fb == 0 && ba != bb))
	a, b := &Float64{val: fa}, &Float64{val: fb}
	verifKeyOrder(a, b, Float64Type, 8)
}

// verifSymTimestamp: a timestamp as the SQL layer produces them (microsecond precision, UTC)
// whose Unix seconds lie in [-2^secBits, 2^secBits).
func verifSymTimestamp(name string, secBits uint) *Timestamp {
	sec := verifrt.I64(name + ".sec")
	usec := verifrt.I64(name + ".usec")
	verifrt.Assume(sec >= -(1<<secBits) && sec < (1<<secBits))
	verifrt.Assume(usec >= 0 && usec < 1000000)
	return &Timestamp{val: time.Unix(sec, usec*1000).UTC()}
}

func VerifH_TimestampValueCodec() {
	us := verifrt.I64("a")
	a := &Timestamp{val: TimeFromInt64(us)}
	verifrt.Assert(TimeToInt64(a.val) == us, "TimeToInt64(TimeFromInt64(us)) == us")
	verifValueRoundTrip(a, TimestampType, 0)
}

// VerifH_TimestampKeyCodec: order/round-trip of the TIMESTAMP key form for every pair of
// timestamps whose Unix seconds fit in secBits bits (2^33 s ~ years 1698..2242).
func VerifH_TimestampKeyCodec() {
	bits := uint(verifrt.Param("secBits"))
	a, b := verifSymTimestamp("a", bits), verifSymTimestamp("b", bits)
	verifKeyOrder(a, b, TimestampType, 8)
}

var _ = time.Now

// VerifH_ValueDecodersTotal: DecodeValue / DecodeNullableValue / DecodeValueLength /
// DecodeValueFromKey on n arbitrary bytes, for column type number `t`: a value or an error,
// never a panic.
func VerifH_ValueDecodersTotal() {
	types := []SQLValueType{IntegerType, BooleanType, VarcharType, BLOBType, UUIDType, TimestampType, Float64Type}
	maxLens := []int{8, 1, 4, 4, 16, 8, 8}
	ti := verifrt.Param("t")
	b := verifrt.Bytes("b", verifrt.Param("n"))
	_, _, err := DecodeValueLength(b)
	_, _, err1 := DecodeValue(b, types[ti])
	_, _, err2 := DecodeNullableValue(b, types[ti])
	_, _, err3 := DecodeValueFromKey(b, types[ti], maxLens[ti])
	if err != nil && err1 != nil && err2 != nil && err3 != nil {
		verifrt.Reach("all rejected")
	} else {
		verifrt.Reach("some decoded")
	}
}
