//go:build verif

package sql

import (
	"bytes"

	"github.com/codenotary/immudb/embedded/verifrt"
)

type verifRow struct {
	id    int64
	aNull bool
	a     int64
	bNull bool
	b     string
}

func verifSymRow(name string, bl int) verifRow {
	r := verifRow{id: verifrt.I64(name + ".id"), aNull: verifrt.Bool(name + ".aNull"), bNull: verifrt.Bool(name + ".bNull")}
	if !r.aNull {
		r.a = verifrt.I64(name + ".a")
	}
	if !r.bNull {
		r.b = string(verifrt.Bytes(name+".b", bl))
	}
	return r
}

func (r verifRow) values() map[uint32]TypedValue {
	m := map[uint32]TypedValue{1: &Integer{val: r.id}, 2: &NullValue{t: IntegerType}, 3: &NullValue{t: VarcharType}}
	if !r.aNull {
		m[2] = &Integer{val: r.a}
	}
	if !r.bNull {
		m[3] = &Varchar{val: r.b}
	}
	return m
}

// verifCmpNullable: NULL sorts first; otherwise the natural order.
func verifCmpInt(n1 bool, v1 int64, n2 bool, v2 int64) int {
	switch {
	case n1 && n2:
		return 0
	case n1:
		return -1
	case n2:
		return 1
	case v1 < v2:
		return -1
	case v1 > v2:
		return 1
	}
	return 0
}

func verifCmpStr(n1 bool, v1 string, n2 bool, v2 string) int {
	switch {
	case n1 && n2:
		return 0
	case n1:
		return -1
	case n2:
		return 1
	}
	return bytes.Compare([]byte(v1), []byte(v2))
}

// VerifH_IndexEntryMapper: what a secondary index holds for a row. Two rows of a table
// (id INTEGER primary key, a INTEGER NULL, b VARCHAR(2) NULL) with symbolic values are serialized
// by the real SQLTx.encodeRowValue (optionally with the block of a dropped column spliced in, as
// rows written before ALTER TABLE DROP COLUMN carry), and mapped to index entries by the real
// indexEntryMapperFor (index on (a), (a,b) or (b,a)). The byte order of the two entries is the
// order of the rows by (indexed columns, primary key) with NULL first, and the entries are
// equal only for rows equal on those columns: the index neither merges nor misorders rows.
func VerifH_IndexEntryMapper() {
	shape, bl1, bl2 := verifrt.Param("index"), verifrt.Param("bl1"), verifrt.Param("bl2")
	verifrt.Stub("embedded/sql.registeredSystemTables", func() []*SystemTableDef { return nil })
	catlg := newCatalog([]byte("e."))
	table, err := catlg.newTable("t", map[uint32]*ColSpec{
		1: {colName: "id", colType: IntegerType},
		2: {colName: "a", colType: IntegerType},
		3: {colName: "b", colType: VarcharType, maxLen: 2},
	}, nil, 3)
	verifrt.Assert(err == nil, "table")
	pk, err := table.newIndex(true, []uint32{1})
	verifrt.Assert(err == nil, "primary index")
	colIDs := [][]uint32{{2}, {2, 3}, {3, 2}}[shape]
	idx, err := table.newIndex(false, colIDs)
	verifrt.Assert(err == nil, "secondary index")
	mapper := indexEntryMapperFor(idx, pk)

	r1, r2 := verifSymRow("r1", bl1), verifSymRow("r2", bl2)
	tx := &SQLTx{}
	entry := func(r verifRow, dropped bool) []byte {
		val, err := tx.encodeRowValue(r.values(), table)
		verifrt.Assert(err == nil, "row value encoded")
		if dropped {
			// count+1, then the block of column 9 (no longer in the catalog): id, length, 3 bytes
			n := uint32(val[0])<<24 | uint32(val[1])<<16 | uint32(val[2])<<8 | uint32(val[3])
			n++
			spliced := []byte{byte(n >> 24), byte(n >> 16), byte(n >> 8), byte(n), 0, 0, 0, 9, 0, 0, 0, 3, 7, 7, 7}
			val = append(spliced, val[4:]...)
		}
		k, err := mapper(nil, val)
		verifrt.Assert(err == nil, "index entry derived from the row value")
		return k
	}
	k1 := entry(r1, verifrt.Param("dropped") == 1)
	k2 := entry(r2, false)
	// expected order: indexed columns in index order, then the primary key
	want := 0
	for _, c := range colIDs {
		if want != 0 {
			break
		}
		if c == 2 {
			want = verifCmpInt(r1.aNull, r1.a, r2.aNull, r2.a)
		} else {
			want = verifCmpStr(r1.bNull, r1.b, r2.bNull, r2.b)
		}
	}
	if want == 0 {
		want = verifCmpInt(false, r1.id, false, r2.id)
	}
	got := verifSign(bytes.Compare(k1, k2))
	verifrt.Assert(got == want, "index entries are ordered as the rows are by (indexed columns, primary key), NULL first")
	verifrt.Reach("compared")
}
