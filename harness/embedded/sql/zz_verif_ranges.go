//go:build verif

package sql

import (
	"bytes"
	"context"

	"github.com/codenotary/immudb/embedded/verifrt"
)

func verifIntIndex(ncols int) (*Table, *Index) {
	t := &Table{id: 1}
	idx := &Index{table: t, id: 2, colsByID: map[uint32]*Column{}}
	for i := 0; i < ncols; i++ {
		c := &Column{table: t, id: uint32(i + 1), colName: "c", colType: IntegerType}
		idx.cols = append(idx.cols, c)
		idx.colsByID[c.id] = c
	}
	return t, idx
}

func verifOp(b byte) CmpOperator {
	switch b % 6 {
	case 0:
		return EQ
	case 1:
		return LT
	case 2:
		return LE
	case 3:
		return GT
	case 4:
		return GE
	}
	return NE
}

func verifHolds(v, c int64, op CmpOperator) bool {
	switch op {
	case EQ:
		return v == c
	case LT:
		return v < c
	case LE:
		return v <= c
	case GT:
		return v > c
	case GE:
		return v >= c
	}
	return v != c
}

// VerifH_ScanRangeComplete: scan-range completeness for an INTEGER index of ncols columns.
// A conjunction of `ncmp` comparisons (symbolic operator among = < <= > >= <> and symbolic
// constant, each on a symbolic column of the index) is folded into ranges by the real
// updateRangeFor/refineWith and turned into a KeyReaderSpec by the real keyReaderSpecFrom
// (ascending or descending). Every row (symbolic column values) that satisfies the conjunction
// has its index key inside [SeekKey, EndKey] and under Prefix: the index path never loses a row
// the predicate accepts.
func VerifH_ScanRangeComplete() {
	ncols, ncmp := verifrt.Param("ncols"), verifrt.Param("ncmp")
	desc := verifrt.Param("desc") == 1
	table, idx := verifIntIndex(ncols)
	row := make([]int64, ncols)
	for i := range row {
		row[i] = verifrt.I64("row")
	}
	ranges := map[uint32]*typedValueRange{}
	satisfied := true
	for k := 0; k < ncmp; k++ {
		col := int(verifrt.Byte("col")) % ncols
		op := verifOp(verifrt.Byte("op"))
		c := verifrt.I64("const")
		err := updateRangeFor(idx.cols[col].id, &Integer{val: c}, op, ranges)
		verifrt.Assert(err == nil, "range folding succeeds")
		satisfied = satisfied && verifHolds(row[col], c, op)
	}
	verifrt.Assume(satisfied)
	spec, err := keyReaderSpecFrom([]byte{9}, table, &ScanSpecs{Index: idx, rangesByColID: ranges, DescOrder: desc})
	verifrt.Assert(err == nil, "key reader spec derived")
	verifrt.Reach("row satisfies the predicate")
	// the row's key in this index: prefix ‖ enc(col values) ‖ (pk suffix: arbitrary bytes)
	key := append([]byte(nil), spec.Prefix...)
	for i := range row {
		enc, _, err := EncodeValueAsKey(&Integer{val: row[i]}, IntegerType, 8)
		verifrt.Assert(err == nil, "row value encodes")
		key = append(key, enc...)
	}
	key = append(key, verifrt.Bytes("pkSuffix", 2)...)
	verifrt.Assume(key[len(key)-2] < KeyValPrefixUpperBound) // encoded values start with a null/not-null tag below the upper-bound marker
	lo, hi := spec.SeekKey, spec.EndKey
	if desc {
		lo, hi = hi, lo
	}
	verifrt.Assert(bytes.HasPrefix(key, spec.Prefix), "row key under the scan prefix")
	verifrt.Assert(bytes.Compare(lo, key) <= 0, "row key not below the scan range")
	verifrt.Assert(bytes.Compare(key, hi) <= 0, "row key not above the scan range")
}

// verifLeaf builds one atomic predicate over the columns of the table and returns it with its
// truth value on the symbolic row: `col op const`, `const op col` (constant on the left) or
// `col [NOT] IN (c1, c2)`.
func verifLeaf(names []string, row []int64) (ValueExp, bool) {
	ci := 0
	if len(names) > 1 && verifrt.Bool("leaf.col") {
		ci = 1
	}
	sel := &ColSelector{col: names[ci]}
	v := row[ci]
	c := verifrt.I64("leaf.const")
	switch verifrt.Byte("leaf.kind") % 3 {
	case 0:
		op := verifOp(verifrt.Byte("leaf.op"))
		return &CmpBoolExp{op: op, left: sel, right: &Integer{val: c}}, verifHolds(v, c, op)
	case 1:
		op := verifOp(verifrt.Byte("leaf.op"))
		return &CmpBoolExp{op: op, left: &Integer{val: c}, right: sel}, verifHolds(c, v, op)
	}
	c2 := verifrt.I64("leaf.const2")
	notIn := verifrt.Bool("leaf.notIn")
	in := v == c || v == c2
	return &InListExp{val: sel, notIn: notIn, values: []ValueExp{&Integer{val: c}, &Integer{val: c2}}}, in != notIn
}

// VerifH_WhereRangesComplete: the same completeness obligation one level up, from the WHERE
// expression tree: the real selectorRanges of CmpBoolExp / InListExp / BinBoolExp (AND folds
// into the same map, OR goes through extendWith) / NotBoolExp derive the ranges, the real
// keyReaderSpecFrom turns them into the scan interval; every row on which the expression is
// true has its index key inside the interval.
func VerifH_WhereRangesComplete() {
	ncols, tree := verifrt.Param("ncols"), verifrt.Param("tree")
	desc := verifrt.Param("desc") == 1
	table, idx := verifIntIndex(ncols)
	table.name = "t"
	table.colsByName = map[string]*Column{}
	names := []string{"a", "b"}[:ncols]
	for i, c := range idx.cols {
		c.colName = names[i]
		table.colsByName[names[i]] = c
	}
	row := make([]int64, ncols)
	for i := range row {
		row[i] = verifrt.I64("row")
	}
	var exp ValueExp
	var truth bool
	l1, t1 := verifLeaf(names, row)
	switch tree {
	case 0:
		exp, truth = l1, t1
	case 1:
		l2, t2 := verifLeaf(names, row)
		exp, truth = &BinBoolExp{op: And, left: l1, right: l2}, t1 && t2
	case 2:
		l2, t2 := verifLeaf(names, row)
		exp, truth = &BinBoolExp{op: Or, left: l1, right: l2}, t1 || t2
	case 3:
		l2, t2 := verifLeaf(names, row)
		l3, t3 := verifLeaf(names, row)
		exp, truth = &BinBoolExp{op: And, left: &BinBoolExp{op: Or, left: l1, right: l2}, right: l3}, (t1 || t2) && t3
	default:
		l2, t2 := verifLeaf(names, row)
		exp, truth = &BinBoolExp{op: And, left: &NotBoolExp{exp: l1}, right: l2}, !t1 && t2
	}
	verifrt.Assume(truth)
	ranges := map[uint32]*typedValueRange{}
	err := exp.selectorRanges(table, "t", nil, ranges)
	verifrt.Assert(err == nil, "ranges derived from the expression")
	spec, err := keyReaderSpecFrom([]byte{9}, table, &ScanSpecs{Index: idx, rangesByColID: ranges, DescOrder: desc})
	verifrt.Assert(err == nil, "key reader spec derived")
	verifrt.Reach("row satisfies the expression")
	key := append([]byte(nil), spec.Prefix...)
	for i := range row {
		enc, _, err := EncodeValueAsKey(&Integer{val: row[i]}, IntegerType, 8)
		verifrt.Assert(err == nil, "row value encodes")
		key = append(key, enc...)
	}
	key = append(key, verifrt.Bytes("pkSuffix", 2)...)
	verifrt.Assume(key[len(key)-2] < KeyValPrefixUpperBound)
	lo, hi := spec.SeekKey, spec.EndKey
	if desc {
		lo, hi = hi, lo
	}
	verifrt.Assert(bytes.HasPrefix(key, spec.Prefix), "row key under the scan prefix")
	verifrt.Assert(bytes.Compare(lo, key) <= 0, "row key not below the scan range")
	verifrt.Assert(bytes.Compare(key, hi) <= 0, "row key not above the scan range")
}

// verifRows is a RowReader serving a fixed list of rows (only Read is used by the wrappers under test).
type verifRows struct {
	RowReader
	rows []*Row
	pos  int
}

func (r *verifRows) Read(ctx context.Context) (*Row, error) {
	if r.pos >= len(r.rows) {
		return nil, ErrNoMoreRows
	}
	r.pos++
	return r.rows[r.pos-1], nil
}

// VerifH_LimitOffsetReaders: LIMIT / OFFSET. Over a source of n rows, the real offsetRowReader
// and limitRowReader (stacked as SELECT ... LIMIT l OFFSET o does) with symbolic o and l return
// exactly rows o .. o+l-1 of the source, in order, then ErrNoMoreRows - and keep saying so.
func VerifH_LimitOffsetReaders() {
	n := verifrt.Param("n")
	src := &verifRows{}
	for i := 0; i < n; i++ {
		src.rows = append(src.rows, &Row{ValuesByPosition: []TypedValue{&Integer{val: int64(i)}}})
	}
	offset, limit := verifrt.Int("offset"), verifrt.Int("limit")
	verifrt.Assume(offset >= 0 && offset <= n+1 && limit >= 0 && limit <= n+1)
	var rd RowReader = src
	rd = newOffsetRowReader(rd, offset)
	rd = newLimitRowReader(rd, limit)
	want := 0
	for i := 0; i < n; i++ {
		if i >= offset && i < offset+limit {
			row, err := rd.Read(context.Background())
			verifrt.Assert(err == nil && row == src.rows[i], "the next row of the window, in source order")
			want++
		}
	}
	_, err := rd.Read(context.Background())
	verifrt.Assert(err == ErrNoMoreRows, "nothing beyond the window")
	_, err = rd.Read(context.Background())
	verifrt.Assert(err == ErrNoMoreRows, "and it stays exhausted")
	verifrt.Reach("window read")
}
