//go:build verif

package sql

import (
	"bytes"
	"context"

	"github.com/codenotary/immudb/embedded/store"
	"github.com/codenotary/immudb/embedded/verifrt"
)

func verifNewSQLTx() (*SQLTx, *store.OngoingTx) {
	otx := store.VerifNewWriteOnlyTx()
	return &SQLTx{tx: otx, lastInsertedPKs: map[string]int64{}, firstInsertedPKs: map[string]int64{}}, otx
}

// verifWrite is what a DML statement does to the transaction: one write and the bookkeeping.
func verifWrite(tx *SQLTx, name string) ([]byte, []byte) {
	k, v := verifrt.Bytes(name+".key", 2), verifrt.Bytes(name+".val", 1)
	err := tx.set(k, nil, v)
	verifrt.Assume(err == nil)
	tx.updatedRows++
	tx.lastInsertedPKs["t"] = int64(tx.updatedRows)
	if _, ok := tx.firstInsertedPKs["t"]; !ok {
		tx.firstInsertedPKs["t"] = int64(tx.updatedRows)
	}
	return k, v
}

// VerifH_RollbackToSavepoint: ROLLBACK TO SAVEPOINT undoes exactly what was done after the
// savepoint: the pending write set and the bookkeeping are those at the savepoint.
// Program: `pre` writes; SAVEPOINT a; `post` writes; ROLLBACK TO a.  Keys/values symbolic.
func VerifH_RollbackToSavepoint() {
	pre, post := verifrt.Param("pre"), verifrt.Param("post")
	tx, otx := verifNewSQLTx()
	for i := 0; i < pre; i++ {
		verifWrite(tx, "pre")
	}
	tx.Savepoint("a")
	atSP := append([]*store.EntrySpec(nil), store.VerifPendingEntries(otx)...)
	rowsAtSP, pkAtSP := tx.updatedRows, tx.lastInsertedPKs["t"]
	for i := 0; i < post; i++ {
		verifWrite(tx, "post")
	}
	err := tx.RollbackToSavepoint("a")
	verifrt.Assert(err == nil, "rollback to an existing savepoint succeeds")
	verifrt.Reach("rolled back")
	verifrt.Assert(tx.updatedRows == rowsAtSP, "affected-row counter restored")
	verifrt.Assert(tx.lastInsertedPKs["t"] == pkAtSP, "generated-key bookkeeping restored")
	now := store.VerifPendingEntries(otx)
	verifrt.Assert(len(now) == len(atSP), "writes made after the savepoint are undone")
	for i := 0; i < len(atSP) && i < len(now); i++ {
		verifrt.Assert(bytes.Equal(now[i].Key, atSP[i].Key) && bytes.Equal(now[i].Value, atSP[i].Value), "writes made before the savepoint are kept unchanged")
	}
	verifrt.Assert(tx.RollbackToSavepoint("nope") != nil, "unknown savepoint is an error")
}

// VerifH_RollbackToSavepointBookkeeping is the carve-out twin of the known finding: everything
// except the write set.
func VerifH_RollbackToSavepointBookkeeping() {
	pre, post := verifrt.Param("pre"), verifrt.Param("post")
	tx, _ := verifNewSQLTx()
	for i := 0; i < pre; i++ {
		verifWrite(tx, "pre")
	}
	tx.Savepoint("a")
	rowsAtSP, pkAtSP := tx.updatedRows, tx.lastInsertedPKs["t"]
	firstAtSP, hadFirst := tx.firstInsertedPKs["t"]
	for i := 0; i < post; i++ {
		verifWrite(tx, "post")
	}
	verifrt.Assert(tx.RollbackToSavepoint("a") == nil, "rollback to an existing savepoint succeeds")
	verifrt.Reach("rolled back")
	verifrt.Assert(tx.updatedRows == rowsAtSP, "affected-row counter restored")
	verifrt.Assert(tx.lastInsertedPKs["t"] == pkAtSP, "generated-key bookkeeping restored")
	f, has := tx.firstInsertedPKs["t"]
	verifrt.Assert(has == hadFirst && f == firstAtSP, "first generated key restored")
	verifrt.Assert(tx.RollbackToSavepoint("a") != nil, "a consumed savepoint no longer exists")
	verifrt.Assert(tx.ReleaseSavepoint("zz") != nil, "releasing an unknown savepoint is an error")
}

// VerifH_CancelDiscards: after Cancel the store transaction is closed, keeps nothing, and a
// commit is refused.
func VerifH_CancelDiscards() {
	tx, otx := verifNewSQLTx()
	verifWrite(tx, "w")
	err := tx.Cancel()
	verifrt.Assert(err == nil, "cancel succeeds")
	verifrt.Assert(otx.Closed() && tx.Closed(), "transaction closed")
	_, err = otx.AsyncCommit(context.Background())
	verifrt.Assert(err != nil, "commit after cancel is refused")
	verifrt.Assert(tx.set(verifrt.Bytes("k", 1), nil, nil) != nil, "writes after cancel are refused")
	verifrt.Reach("cancelled")
}
