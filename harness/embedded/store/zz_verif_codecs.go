//go:build verif

package store

import (
	"bytes"
	"time"

	"github.com/codenotary/immudb/embedded/verifrt"
)

// ---- C16: decoders are total ----

// VerifH_TxMetadataTotal: TxMetadata.ReadFrom is total on every buffer of length <= L.
func VerifH_TxMetadataTotal() {
	b := verifrt.BytesUpTo("b", verifrt.Param("L"))
	md := NewTxMetadata()
	err := md.ReadFrom(b)
	if err == nil {
		verifrt.Reach("decoded")
	} else {
		verifrt.Reach("rejected")
	}
}

// VerifH_KVMetadataTotal: KVMetadata.unsafeReadFrom is total.
func VerifH_KVMetadataTotal() {
	b := verifrt.BytesUpTo("b", verifrt.Param("L"))
	md := newReadOnlyKVMetadata()
	err := md.unsafeReadFrom(b)
	if err == nil {
		verifrt.Reach("decoded")
	} else {
		verifrt.Reach("rejected")
	}
}

// VerifH_TxHeaderTotal: TxHeader.ReadFrom is total on every buffer of length n.
func VerifH_TxHeaderTotal() {
	n := verifrt.Param("n")
	b := verifrt.Bytes("b", n)
	if n >= 55 {
		mdLen := int(b[50])<<8 | int(b[51])
		if verifrt.Param("mode") == 0 {
			// regime 0: arbitrary metadata content, block of at most M bytes (longer metadata
			// buffers are the subject of VerifH_TxMetadataTotal)
			verifrt.Assume(mdLen <= verifrt.Param("M"))
		} else {
			// regime 1: a metadata block of ANY declared length whose content is one extra
			// attribute spanning the whole block (keeps the attribute parser on one path)
			verifrt.Assume(mdLen >= 3)
			verifrt.Assume(b[52] == 1 && int(b[53])<<8|int(b[54]) == mdLen-3)
		}
	}
	hdr := &TxHeader{}
	err := hdr.ReadFrom(b)
	if err == nil {
		verifrt.Reach("decoded")
	} else {
		verifrt.Reach("rejected")
	}
}

// VerifH_ValueRefTotal: valueRefFrom is total on every index value of length n.
func VerifH_ValueRefTotal() {
	n := verifrt.Param("n")
	b := verifrt.Bytes("b", n)
	if n >= 46 {
		// stated bounds: embedded tx metadata at most M bytes, kv metadata at most K bytes
		// (longer metadata buffers are the subject of the two metadata harnesses)
		txmdLen := int(b[44])<<8 | int(b[45])
		verifrt.Assume(txmdLen <= verifrt.Param("M"))
		off := 46 + txmdLen
		if off+2 <= n {
			kvmdLen := int(b[off])<<8 | int(b[off+1])
			verifrt.Assume(kvmdLen <= verifrt.Param("K"))
		}
	}
	st := &ImmuStore{}
	_, err := st.valueRefFrom(1, 1, b)
	if err == nil {
		verifrt.Reach("decoded")
	} else {
		verifrt.Reach("rejected")
	}
}

// ---- C15: codecs round-trip ----

func verifSymTxMetadata(extraLen int) *TxMetadata {
	md := NewTxMetadata()
	if verifrt.Bool("md.hasTrunc") {
		md.WithTruncatedTxID(verifrt.U64("md.trunc"))
	}
	if extraLen > 0 {
		err := md.WithExtra(verifrt.Bytes("md.extra", extraLen))
		verifrt.Assume(err == nil)
	}
	return md
}

func verifSymKVMetadata() *KVMetadata {
	md := NewKVMetadata()
	if verifrt.Bool("kv.deleted") {
		md.AsDeleted(true)
	}
	if verifrt.Bool("kv.expirable") {
		md.ExpiresAt(time.Unix(verifrt.I64("kv.expiresAt"), 0))
	}
	if verifrt.Bool("kv.nonIndexable") {
		md.AsNonIndexable(true)
	}
	return md
}

// VerifH_TxMetadataRoundTrip: ReadFrom(Bytes(md)) == md for every attribute combination.
func VerifH_TxMetadataRoundTrip() {
	md := verifSymTxMetadata(verifrt.Param("extra"))
	enc := md.Bytes()
	md2 := NewTxMetadata()
	err := md2.ReadFrom(enc)
	verifrt.Assert(err == nil, "decodes")
	verifrt.Reach("decoded")
	verifrt.Assert(md.HasTruncatedTxID() == md2.HasTruncatedTxID(), "same truncated flag")
	if md.HasTruncatedTxID() {
		a, _ := md.GetTruncatedTxID()
		b, _ := md2.GetTruncatedTxID()
		verifrt.Assert(a == b, "same truncated id")
	}
	verifrt.Assert(bytes.Equal(md.Extra(), md2.Extra()), "same extra")
	verifrt.Assert(bytes.Equal(md2.Bytes(), enc), "re-encodes")
}

// VerifH_KVMetadataRoundTrip: unsafeReadFrom(Bytes(md)) == md for every attribute combination.
func VerifH_KVMetadataRoundTrip() {
	md := verifSymKVMetadata()
	enc := md.Bytes()
	md2 := newReadOnlyKVMetadata()
	err := md2.unsafeReadFrom(enc)
	verifrt.Assert(err == nil, "decodes")
	verifrt.Reach("decoded")
	verifrt.Assert(md.Deleted() == md2.Deleted(), "same deleted")
	verifrt.Assert(md.NonIndexable() == md2.NonIndexable(), "same nonIndexable")
	verifrt.Assert(md.IsExpirable() == md2.IsExpirable(), "same expirable")
	if md.IsExpirable() {
		a, _ := md.ExpirationTime()
		b, _ := md2.ExpirationTime()
		verifrt.Assert(a.Unix() == b.Unix(), "same expiration")
		verifrt.Assert(a.Equal(b), "same expiration instant")
	}
	verifrt.Assert(bytes.Equal(md2.Bytes(), enc), "re-encodes")
}

func verifSymHeader(version, extraLen int) *TxHeader {
	hdr := &TxHeader{
		ID:       verifrt.U64("hdr.ID"),
		Ts:       verifrt.I64("hdr.Ts"),
		BlTxID:   verifrt.U64("hdr.BlTxID"),
		BlRoot:   verifrt.Digest("hdr.BlRoot"),
		PrevAlh:  verifrt.Digest("hdr.PrevAlh"),
		Version:  version,
		NEntries: verifrt.Int("hdr.NEntries"),
		Eh:       verifrt.Digest("hdr.Eh"),
	}
	if version == 1 && verifrt.Bool("hdr.hasMD") {
		hdr.Metadata = verifSymTxMetadata(extraLen)
	}
	return hdr
}

func verifMDBytes(md *TxMetadata) []byte {
	if md == nil {
		return nil
	}
	return md.Bytes()
}

// VerifH_TxHeaderRoundTrip: ReadFrom(Bytes(h)) == h for every valid header (both versions).
func VerifH_TxHeaderRoundTrip() {
	version := verifrt.Param("version")
	hdr := verifSymHeader(version, verifrt.Param("extra"))
	// documented validity: what ReadFrom itself enforces
	verifrt.Assume(hdr.ID >= 1 && hdr.BlTxID < hdr.ID && hdr.NEntries >= 1)
	if version == 0 {
		verifrt.Assume(hdr.NEntries <= 0xFFFF)
	} else {
		verifrt.Assume(hdr.NEntries <= 0xFFFFFFFF)
	}
	enc, err := hdr.Bytes()
	verifrt.Assert(err == nil, "encodes")
	hdr2 := &TxHeader{}
	err = hdr2.ReadFrom(enc)
	verifrt.Assert(err == nil, "decodes")
	verifrt.Reach("decoded")
	verifrt.Assert(hdr2.ID == hdr.ID, "ID")
	verifrt.Assert(hdr2.Ts == hdr.Ts, "Ts")
	verifrt.Assert(hdr2.BlTxID == hdr.BlTxID, "BlTxID")
	verifrt.Assert(hdr2.BlRoot == hdr.BlRoot, "BlRoot")
	verifrt.Assert(hdr2.PrevAlh == hdr.PrevAlh, "PrevAlh")
	verifrt.Assert(hdr2.Version == hdr.Version, "Version")
	verifrt.Assert(hdr2.NEntries == hdr.NEntries, "NEntries")
	verifrt.Assert(hdr2.Eh == hdr.Eh, "Eh")
	verifrt.Assert(bytes.Equal(verifMDBytes(hdr2.Metadata), verifMDBytes(hdr.Metadata)), "Metadata")
	verifrt.Assert(hdr2.Alh() == hdr.Alh(), "Alh")
}

// VerifH_ValueRefRoundTrip: valueRefFrom(serializeIndexableEntry(e,txmd,kvmd)) returns e's fields.
func VerifH_ValueRefRoundTrip() {
	var txmdBs, kvmdBs []byte
	var txmd *TxMetadata
	var kvmd *KVMetadata
	if verifrt.Bool("hasTxMD") {
		txmd = verifSymTxMetadata(verifrt.Param("extra"))
		txmdBs = txmd.Bytes()
	}
	if verifrt.Bool("hasKVMD") {
		kvmd = verifSymKVMetadata()
		kvmdBs = kvmd.Bytes()
	}
	e := &TxEntry{vLen: int(verifrt.U32("vLen")), vOff: verifrt.I64("vOff"), hVal: verifrt.Digest("hVal")}
	var b [lszSize + offsetSize + 32 + sszSize + maxTxMetadataLen + sszSize + maxKVMetadataLen]byte
	n := serializeIndexableEntry(b[:], txmdBs, e, kvmdBs)
	st := &ImmuStore{}
	vr, err := st.valueRefFrom(7, 3, b[:n])
	verifrt.Assert(err == nil, "decodes")
	verifrt.Reach("decoded")
	verifrt.Assert(vr.Tx() == 7 && vr.HC() == 3, "tx/hc")
	verifrt.Assert(vr.Len() == uint32(e.vLen), "vLen")
	verifrt.Assert(vr.VOff() == e.vOff, "vOff")
	verifrt.Assert(vr.HVal() == e.hVal, "hVal")
	verifrt.Assert(bytes.Equal(verifMDBytes(vr.TxMetadata()), txmdBs), "txmd")
	var got []byte
	if vr.KVMetadata() != nil {
		got = vr.KVMetadata().Bytes()
	}
	verifrt.Assert(bytes.Equal(got, kvmdBs), "kvmd")
	// trailing garbage is rejected
	extra := verifrt.Byte("trail")
	b[n] = extra
	_, err = st.valueRefFrom(7, 3, b[:n+1])
	verifrt.Assert(err != nil, "trailing byte rejected")
}
