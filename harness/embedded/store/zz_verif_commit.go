//go:build verif

package store

import (
	"bytes"
	"crypto/sha256"

	"github.com/codenotary/immudb/embedded/ahtree"
	"github.com/codenotary/immudb/embedded/cache"
	"github.com/codenotary/immudb/embedded/verifrt"
	"github.com/codenotary/immudb/embedded/watchers"
)

type verifPE struct {
	txID uint64
	alh  [sha256.Size]byte
	off  int64
	size int
}

// VerifH_PrecommitBufferFIFO: the precommit ring buffer behaves as a bounded FIFO of
// (txID, alh, off, size) under every sequence of nops operations (operation kinds and
// arguments symbolic): put, readAhead, advanceReader, recedeWriter, grow.
func VerifH_PrecommitBufferFIFO() {
	size := verifrt.Param("size")
	nops := verifrt.Param("nops")
	b := newPrecommitBuffer(size)
	capacity := size
	var model []verifPE
	for i := 0; i < nops; i++ {
		switch verifrt.Byte("op") % 5 {
		case 0: // put
			e := verifPE{txID: verifrt.U64("txID"), alh: verifrt.Digest("alh"), off: verifrt.I64("off"), size: verifrt.Int("size")}
			err := b.put(e.txID, e.alh, e.off, e.size)
			if len(model) == capacity {
				verifrt.Assert(err != nil, "put on a full buffer is refused")
			} else {
				verifrt.Assert(err == nil, "put on a non-full buffer succeeds")
				model = append(model, e)
			}
		case 1: // readAhead(n)
			n := verifrt.Int("n")
			verifrt.Assume(n >= -1 && n <= 4)
			txID, alh, off, sz, err := b.readAhead(n)
			if n < 0 || n >= len(model) {
				verifrt.Assert(err != nil, "readAhead beyond the content is refused")
			} else {
				verifrt.Assert(err == nil, "readAhead inside the content succeeds")
				for k := range model {
					if k == n {
						verifrt.Assert(txID == model[k].txID && alh == model[k].alh && off == model[k].off && sz == model[k].size, "readAhead(n) returns the n-th oldest entry")
					}
				}
			}
		case 2: // advanceReader(n)
			n := verifrt.Int("n")
			verifrt.Assume(n >= -1 && n <= 4)
			err := b.advanceReader(n)
			if n <= 0 || n > len(model) {
				verifrt.Assert(err != nil, "advanceReader beyond the content is refused")
			} else {
				verifrt.Assert(err == nil, "advanceReader inside the content succeeds")
				for k := 1; k <= len(model); k++ {
					if k == n {
						model = model[k:]
						break
					}
				}
			}
		case 3: // recedeWriter(n)
			n := verifrt.Int("n")
			verifrt.Assume(n >= -1 && n <= 4)
			err := b.recedeWriter(n)
			if n <= 0 || n > len(model) {
				verifrt.Assert(err != nil, "recedeWriter beyond the content is refused")
			} else {
				verifrt.Assert(err == nil, "recedeWriter inside the content succeeds")
				for k := 1; k <= len(model); k++ {
					if k == n {
						model = model[:len(model)-k]
						break
					}
				}
			}
		case 4: // grow
			ns := verifrt.Int("newSize")
			verifrt.Assume(ns >= 0 && ns <= 4)
			b.grow(ns)
			for k := 0; k <= 4; k++ {
				if k == ns && k > capacity {
					capacity = k
				}
			}
		}
		verifrt.Assert(len(b.buf)-b.freeSlots() == len(model), "occupancy equals the model length")
	}
	// drain: the remaining content is the model, in order
	for k := range model {
		txID, alh, _, _, err := b.readAhead(k)
		verifrt.Assert(err == nil && txID == model[k].txID && alh == model[k].alh, "content equals the model in FIFO order")
	}
	verifrt.Reach("done")
}

// ---- one inductive step of the commit frontier ----

type verifFrontier struct {
	st       *ImmuStore
	cLog     *verifMemApp
	txLog    *verifMemApp
	c, p     uint64 // committed / precommitted ids of the pre-state
	pend     []verifPE
	cLogPre  []byte
	doneUpto []uint64
	ahtOps   []string
}

// verifFrontierState builds an arbitrary valid pre-state: c committed transactions (commit log of
// c entries with arbitrary content), k = p-c precommitted ones held by the ring buffer.
func verifFrontierState(k, bufSize, entrySize int) *verifFrontier {
	f := &verifFrontier{}
	f.c = verifrt.U64("committed")
	verifrt.Assume(f.c <= 2)
	f.p = f.c + uint64(k)
	var clog []byte
	for i := uint64(0); i < 2; i++ {
		if i < f.c {
			clog = append(clog, verifrt.Bytes("clog", entrySize)...)
		}
	}
	f.cLogPre = append([]byte(nil), clog...)
	f.cLog = &verifMemApp{b: clog, off: int64(len(clog))}
	f.txLog = &verifMemApp{}
	buf := newPrecommitBuffer(bufSize)
	for i := 0; i < k; i++ {
		e := verifPE{txID: f.c + uint64(i) + 1, alh: verifrt.Digest("alh"), off: verifrt.I64("off"), size: int(verifrt.U32("size"))}
		err := buf.put(e.txID, e.alh, e.off, e.size)
		verifrt.Assume(err == nil)
		f.pend = append(f.pend, e)
	}
	committedAlh := verifrt.Digest("committedAlh")
	lastAlh := committedAlh
	if k > 0 {
		lastAlh = f.pend[k-1].alh
	}
	f.st = &ImmuStore{
		cLog: f.cLog, txLog: f.txLog, cLogEntrySize: entrySize, cLogBuf: buf,
		committedTxID: f.c, committedAlh: committedAlh,
		inmemPrecommittedTxID: f.p, inmemPrecommittedAlh: lastAlh,
		logger: nil,
	}
	verifrt.Stub("(*embedded/watchers.WatchersHub).DoneUpto", func(w *watchers.WatchersHub, t uint64) error {
		f.doneUpto = append(f.doneUpto, t)
		return nil
	})
	// what the durable-precommit hub reports: anything between the committed and the precommitted frontier
	durable := verifrt.U64("durablePrecommitted")
	verifrt.Assume(durable >= f.c && durable <= f.p)
	verifrt.Stub("(*embedded/watchers.WatchersHub).Status", func(w *watchers.WatchersHub) (uint64, int, error) { return durable, 0, nil })
	verifrt.Stub("(*embedded/watchers.WatchersHub).RecedeTo", func(w *watchers.WatchersHub, t uint64) error { return nil })
	verifrt.Stub("(*embedded/ahtree.AHtree).ResetSize", func(t *ahtree.AHtree, n uint64) error {
		f.ahtOps = append(f.ahtOps, "reset")
		return nil
	})
	verifrt.Stub("(*embedded/ahtree.AHtree).Size", func(t *ahtree.AHtree) uint64 { return f.st.inmemPrecommittedTxID })
	return f
}

// VerifH_MayCommitStep: from an arbitrary valid state, mayCommit writes commit-log entries only at
// committedTxID*entrySize.., each being (off,size[,alh]) of its transaction; the committed
// frontier only grows, up to the allowance; the state it reports is the Alh of the last
// committed transaction; the rest of the buffer is kept.
func VerifH_MayCommitStep() {
	k, entrySize := verifrt.Param("k"), verifrt.Param("entrySize")
	f := verifFrontierState(k, verifrt.Param("buf"), entrySize)
	st := f.st
	if verifrt.Bool("external") {
		st.useExternalCommitAllowance = true
		st.commitAllowedUpToTxID = verifrt.U64("allowed")
		verifrt.Assume(st.commitAllowedUpToTxID >= f.c && st.commitAllowedUpToTxID <= f.p)
	}
	target := st.commitAllowedUpTo()
	err := st.mayCommit()
	verifrt.Assert(err == nil, "mayCommit succeeds on a valid state")
	verifrt.Reach("committed")
	verifrt.Assert(st.committedTxID == target && st.committedTxID >= f.c, "frontier moved exactly to the allowance, never back")
	// commit log: old entries untouched, new entries at their slots
	verifrt.Assert(len(f.cLog.b) >= len(f.cLogPre), "commit log not truncated below the committed frontier")
	for i := range f.cLogPre {
		verifrt.Assert(f.cLog.b[i] == f.cLogPre[i], "committed commit-log entries unchanged")
	}
	n := int(target - f.c)
	verifrt.Assert(len(f.cLog.b) == (int(f.c)+n)*entrySize, "commit log holds exactly one entry per committed tx")
	for i := 0; i < n && i < len(f.pend); i++ {
		e := f.cLog.b[(int(f.c)+i)*entrySize : (int(f.c)+i+1)*entrySize]
		off := int64(uint64(e[0])<<56 | uint64(e[1])<<48 | uint64(e[2])<<40 | uint64(e[3])<<32 | uint64(e[4])<<24 | uint64(e[5])<<16 | uint64(e[6])<<8 | uint64(e[7]))
		sz := uint32(e[8])<<24 | uint32(e[9])<<16 | uint32(e[10])<<8 | uint32(e[11])
		verifrt.Assert(off == f.pend[i].off && sz == uint32(f.pend[i].size), "commit-log entry is (off,size) of its transaction")
		if entrySize == cLogEntrySizeV2 {
			var a [sha256.Size]byte
			copy(a[:], e[12:])
			verifrt.Assert(a == f.pend[i].alh, "commit-log entry carries the tx Alh")
		}
	}
	if n > 0 && n <= len(f.pend) {
		verifrt.Assert(st.committedAlh == f.pend[n-1].alh, "reported state is the Alh of the last committed tx")
		verifrt.Assert(len(f.doneUpto) == 1 && f.doneUpto[0] == target, "commit watchers advanced to the new frontier")
	}
	verifrt.Assert(len(st.cLogBuf.buf)-st.cLogBuf.freeSlots() == k-n, "uncommitted transactions stay buffered")
	verifrt.Assert(st.inmemPrecommittedTxID == f.p, "precommit frontier untouched")
}

// VerifH_DiscardPrecommittedStep: DiscardPrecommittedTxsSince refuses committed ids and otherwise
// leaves the committed frontier and the commit log untouched, re-establishing the invariant with
// inmemPrecommittedTxID = txID-1.
func VerifH_DiscardPrecommittedStep() {
	k := verifrt.Param("k")
	f := verifFrontierState(k, verifrt.Param("buf"), cLogEntrySizeV2)
	st := f.st
	committedAlh := st.committedAlh
	txID := verifrt.U64("txID")
	verifrt.Assume(txID <= 6)
	n, err := st.DiscardPrecommittedTxsSince(txID)
	verifrt.Assert(st.committedTxID == f.c && st.committedAlh == committedAlh, "committed frontier untouched")
	verifrt.Assert(len(f.cLog.ops) == 0 && len(f.txLog.ops) == 0, "no log is written or rewound")
	if txID <= f.c {
		verifrt.Assert(err != nil && n == 0, "committed transactions cannot be discarded")
		verifrt.Assert(st.inmemPrecommittedTxID == f.p, "nothing discarded")
		verifrt.Reach("refused")
		return
	}
	verifrt.Assert(err == nil, "discard of precommitted transactions succeeds")
	verifrt.Reach("discarded")
	want := f.p
	if txID-1 < want {
		want = txID - 1
	}
	verifrt.Assert(st.inmemPrecommittedTxID == want, "precommit frontier is min(old, txID-1)")
	for i := 0; i <= k; i++ {
		if want == f.c+uint64(i) {
			if i == 0 {
				verifrt.Assert(st.inmemPrecommittedAlh == committedAlh, "precommitted Alh falls back to the committed one")
			} else {
				verifrt.Assert(st.inmemPrecommittedAlh == f.pend[i-1].alh, "precommitted Alh is the one of the new last tx")
			}
			verifrt.Assert(len(st.cLogBuf.buf)-st.cLogBuf.freeSlots() == i, "buffer holds exactly the remaining precommitted txs")
		}
	}
}

// VerifH_AllowCommitUptoStep: the allowance is monotone and never beyond the precommit frontier.
func VerifH_AllowCommitUptoStep() {
	k := verifrt.Param("k")
	f := verifFrontierState(k, 4, cLogEntrySizeV2)
	st := f.st
	st.synced = true
	st.useExternalCommitAllowance = verifrt.Bool("external")
	st.commitAllowedUpToTxID = verifrt.U64("allowed")
	verifrt.Assume(st.commitAllowedUpToTxID >= f.c && st.commitAllowedUpToTxID <= f.p)
	old := st.commitAllowedUpToTxID
	x := verifrt.U64("x")
	err := st.AllowCommitUpto(x)
	if !st.useExternalCommitAllowance {
		verifrt.Assert(err != nil && st.commitAllowedUpToTxID == old, "refused when the mode is off")
		verifrt.Reach("refused")
		return
	}
	verifrt.Assert(err == nil, "accepted")
	verifrt.Reach("allowed")
	verifrt.Assert(st.commitAllowedUpToTxID >= old, "allowance never decreases")
	verifrt.Assert(st.commitAllowedUpToTxID <= f.p, "allowance never beyond the precommit frontier")
	verifrt.Assert(st.commitAllowedUpToTxID <= x || st.commitAllowedUpToTxID == old, "allowance never beyond what was asked")
	verifrt.Assert(st.committedTxID == f.c && len(f.cLog.ops) == 0 && len(f.doneUpto) == 0, "synced mode: committing (commit-log write, fsync, signalling) is left to the syncer")
}

// VerifH_PrecommitBufferStep: one operation from an ARBITRARY valid ring state (any capacity
// `size`, any read/write positions incl. wrapped ones, full or not): the operation behaves as on
// the FIFO the state represents. Covers every fill level and wrap-around position at once.
func VerifH_PrecommitBufferStep() {
	size := verifrt.Param("size")
	b := newPrecommitBuffer(size)
	rpos, wpos := verifrt.Int("rpos"), verifrt.Int("wpos")
	verifrt.Assume(rpos >= 0 && rpos < size && wpos >= 0 && wpos < size)
	full := verifrt.Bool("full")
	verifrt.Assume(!full || rpos == wpos) // representation invariant
	b.rpos, b.wpos, b.full = rpos, wpos, full
	for i := range b.buf {
		b.buf[i].txID, b.buf[i].alh = verifrt.U64("slot.txID"), verifrt.Digest("slot.alh")
	}
	// abstraction: the FIFO content is the slots rpos+1 .. wpos (cyclically), `size` of them if full
	count := (wpos - rpos + size) % size
	if full {
		count = size
	}
	var model []verifPE
	for k := 0; k < count; k++ {
		e := b.buf[(rpos+1+k)%size]
		model = append(model, verifPE{txID: e.txID, alh: e.alh})
	}
	verifrt.Assert(size-b.freeSlots() == count, "occupancy of the state")

	switch verifrt.Param("op") {
	case 0: // put
		e := verifPE{txID: verifrt.U64("txID"), alh: verifrt.Digest("alh")}
		err := b.put(e.txID, e.alh, 7, 9)
		if count == size {
			verifrt.Assert(err != nil, "put on a full buffer is refused")
		} else {
			verifrt.Assert(err == nil, "put on a non-full buffer succeeds")
			model = append(model, e)
		}
	case 1: // advanceReader(n)
		n := verifrt.Int("n")
		verifrt.Assume(n >= -1 && n <= size+1)
		err := b.advanceReader(n)
		if n <= 0 || n > count {
			verifrt.Assert(err != nil, "advanceReader beyond the content is refused")
		} else {
			verifrt.Assert(err == nil, "advanceReader inside the content succeeds")
			for k := 1; k <= count; k++ {
				if k == n {
					model = model[k:]
					break
				}
			}
		}
	case 2: // recedeWriter(n)
		n := verifrt.Int("n")
		verifrt.Assume(n >= -1 && n <= size+1)
		err := b.recedeWriter(n)
		if n <= 0 || n > count {
			verifrt.Assert(err != nil, "recedeWriter beyond the content is refused")
		} else {
			verifrt.Assert(err == nil, "recedeWriter inside the content succeeds")
			for k := 1; k <= count; k++ {
				if k == n {
					model = model[:len(model)-k]
					break
				}
			}
		}
	case 3: // grow
		ns := verifrt.Int("newSize")
		verifrt.Assume(ns >= 0 && ns <= size+2)
		b.grow(ns)
	}
	verifrt.Reach("stepped")
	verifrt.Assert(len(b.buf)-b.freeSlots() == len(model), "occupancy equals the model length")
	verifrt.Assert(!b.full || b.rpos == b.wpos, "representation invariant preserved")
	for k := range model {
		txID, alh, _, _, err := b.readAhead(k)
		verifrt.Assert(err == nil && txID == model[k].txID && alh == model[k].alh, "content equals the model in FIFO order")
	}
	_, _, _, _, err := b.readAhead(len(model))
	verifrt.Assert(err != nil, "reading past the content is refused")
}

// VerifH_PerformPrecommitStep: one precommit from an arbitrary valid frontier state. The tx log
// holds L arbitrary bytes below the precommit frontier (the records of earlier transactions)
// and G bytes of garbage above it (a partially written, never precommitted record). The new
// transaction (ne entries, symbolic keys / metadata / value digests, header version 0/1, values
// embedded in the tx log or not) is serialized by the real performPrecommit:
//  * it gets ID = precommitted+1 and PrevAlh = the precommitted Alh, and is refused when it
//    would link to itself or later;
//  * nothing below the old frontier changes; the record sits exactly at the old frontier (after
//    the embedded values, if any) and the new frontier is its end = the end of the log;
//  * the record read back by the real Tx.readFrom is the transaction (header incl. metadata,
//    every entry's key / metadata / value length / offset / digest), embedded values sit where
//    the entries point;
//  * the ring buffer gets (id, Alh, offset, size) of the record; the precommit frontier moves
//    by one and reports the record's Alh; the committed frontier and the commit log are untouched.
func VerifH_PerformPrecommitStep() {
	version, ne, k := verifrt.Param("version"), verifrt.Param("ne"), verifrt.Param("k")
	embedded := verifrt.Param("embedded") == 1
	L, G := verifrt.Param("L"), verifrt.Param("G")
	f := verifFrontierState(k, k+1, cLogEntrySizeV2)
	st := f.st
	st.synced, st.maxActiveTransactions, st.embeddedValues = true, 8, embedded
	pre := verifrt.Bytes("txlog", L+G)
	f.txLog.b, f.txLog.off = append([]byte(nil), pre...), int64(L+G)
	st.precommittedTxLogSize = int64(L)
	st._txbs = make([]byte, 512)
	blRoot := verifrt.Digest("blRoot")
	verifrt.Stub("(*embedded/ahtree.AHtree).RootAt", func(t *ahtree.AHtree, n uint64) ([sha256.Size]byte, error) { return blRoot, nil })
	var appended [][]byte
	verifrt.Stub("(*embedded/ahtree.AHtree).Append", func(t *ahtree.AHtree, d []byte) (uint64, [sha256.Size]byte, error) {
		appended = append(appended, append([]byte(nil), d...))
		return 0, [sha256.Size]byte{}, nil
	})
	// the tx-log cache is a one-slot model for the id about to be assigned; it may already hold a
	// stale record under that id (a transaction precommitted earlier under the same id, read
	// while precommitted, then discarded)
	var cachedRec []byte
	cachedSet := false
	if verifrt.Bool("staleCacheEntry") {
		cachedRec, cachedSet = verifrt.Bytes("staleRecord", 8), true
	}
	verifrt.Stub("(*embedded/cache.Cache).Put", func(c *cache.Cache, key interface{}, value interface{}) (interface{}, interface{}, error) {
		if id, ok := key.(uint64); ok && id == f.p+1 {
			cachedRec, cachedSet = value.([]byte), true
		}
		return nil, nil, nil
	})
	verifrt.Stub("(*embedded/cache.Cache).Get", func(c *cache.Cache, key interface{}) (interface{}, error) {
		if id, ok := key.(uint64); ok && id == f.p+1 && cachedSet {
			return cachedRec, nil
		}
		return nil, cache.ErrKeyNotFound
	})

	tx := NewTx(ne, 4)
	tx.header.Version, tx.header.NEntries = version, ne
	if version == 1 && verifrt.Bool("hasTxMD") {
		tx.header.Metadata = verifSymTxMetadata(0)
	}
	specs := make([]*EntrySpec, ne)
	kls := []int{verifrt.Param("kl1"), verifrt.Param("kl2")}
	vls := []int{verifrt.Param("vl1"), verifrt.Param("vl2")} // lengths of the embedded values
	for i := 0; i < ne; i++ {
		e := tx.entries[i]
		key := verifrt.Bytes("key", kls[i])
		e.setKey(key)
		if version == 1 && verifrt.Bool("hasKVMD") {
			e.md = verifSymKVMetadata()
		}
		specs[i] = &EntrySpec{Key: key, Metadata: e.md}
		if embedded {
			specs[i].Value = verifrt.Bytes("value", vls[i])
			e.vLen = len(specs[i].Value)
		} else {
			e.vLen, e.vOff = int(verifrt.U32("vLen")), verifrt.I64("vOff")
			verifrt.Assume(e.vLen >= 0)
		}
		e.hVal = verifrt.Digest("hVal")
	}
	verifrt.Assert(tx.BuildHashTree() == nil, "entry tree")
	ts, blTxID := verifrt.I64("ts"), verifrt.U64("blTxID")
	preAlh := st.inmemPrecommittedAlh
	committedAlh := st.committedAlh

	err := st.performPrecommit(tx, specs, ts, blTxID)

	verifrt.Assert(st.committedTxID == f.c && st.committedAlh == committedAlh && len(f.cLog.ops) == 0, "committed frontier and commit log untouched")
	for i := 0; i < L; i++ {
		verifrt.Assert(f.txLog.b[i] == pre[i], "tx-log bytes below the precommit frontier unchanged")
	}
	if blTxID >= f.p+1 {
		verifrt.Assert(err != nil, "a transaction linking to itself or later is refused")
		verifrt.Assert(st.inmemPrecommittedTxID == f.p && st.inmemPrecommittedAlh == preAlh && st.precommittedTxLogSize == int64(L), "refused precommit leaves the frontier where it was")
		verifrt.Reach("refused")
		return
	}
	verifrt.Assert(err == nil, "precommit succeeds")
	verifrt.Reach("precommitted")
	h := tx.header
	verifrt.Assert(h.ID == f.p+1 && h.PrevAlh == preAlh && h.Ts == ts && h.BlTxID == blTxID, "id is precommitted+1 and the tx chains to the precommitted Alh")
	if blTxID > 0 {
		verifrt.Assert(h.BlRoot == blRoot, "binary-linking root taken from the tree at blTxID")
	}
	alh := h.Alh()
	verifrt.Assert(st.inmemPrecommittedTxID == f.p+1 && st.inmemPrecommittedAlh == alh, "precommit frontier moved by one and reports the tx Alh")
	id, balh, off, size, err := st.cLogBuf.readAhead(k)
	verifrt.Assert(err == nil && id == f.p+1 && balh == alh, "ring buffer holds (id, Alh) of the new tx")
	verifrt.Assert(len(appended) == 1 && bytes.Equal(appended[0], alh[:]), "the Alh is appended to the hash tree")
	prefix := 0
	if embedded {
		prefix = 2
		for i := 0; i < ne; i++ {
			prefix += len(specs[i].Value)
		}
	}
	verifrt.Assert(off == int64(L+prefix), "record sits right at the old frontier (after the embedded values)")
	verifrt.Assert(st.precommittedTxLogSize == off+int64(size) && int64(len(f.txLog.b)) == off+int64(size), "new frontier is the end of the record and of the log")
	// read the record back the way every reader of the store does (tx-log cache first), with
	// the real record reader: a stale cache entry under the same id must not be served
	r, err := st.appendableReaderForTx(h.ID, true)
	verifrt.Assert(err == nil, "a reader for the precommitted transaction")
	tx2 := NewTx(ne, 4)
	verifrt.Assert(tx2.readFrom(r, false) == nil, "the record is readable")
	h2 := tx2.header
	verifrt.Assert(h2.ID == h.ID && h2.Ts == h.Ts && h2.BlTxID == h.BlTxID && h2.BlRoot == h.BlRoot && h2.PrevAlh == h.PrevAlh && h2.Version == h.Version && h2.NEntries == h.NEntries && h2.Eh == h.Eh, "header read back")
	verifrt.Assert(bytes.Equal(verifMDBytes(h2.Metadata), verifMDBytes(h.Metadata)), "tx metadata read back")
	for i := 0; i < ne; i++ {
		a, b := tx.entries[i], tx2.entries[i]
		verifrt.Assert(bytes.Equal(a.key(), b.key()) && a.vLen == b.vLen && a.vOff == b.vOff && a.hVal == b.hVal, "entry read back")
		verifrt.Assert(bytes.Equal(verifKVMDBytes(a.md), verifKVMDBytes(b.md)), "entry metadata read back")
		if embedded && len(specs[i].Value) > 0 {
			verifrt.Assert(a.vOff >= int64(L+2) && a.vOff+int64(a.vLen) <= off, "embedded value sits between the old frontier and the record")
			for j := 0; j < len(specs[i].Value); j++ {
				verifrt.Assert(f.txLog.b[a.vOff+int64(j)] == specs[i].Value[j], "embedded value bytes")
			}
		}
	}
}
