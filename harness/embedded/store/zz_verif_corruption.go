//go:build verif

package store

import (
	"bytes"
	"crypto/sha256"

	"github.com/codenotary/immudb/embedded/cache"
	"github.com/codenotary/immudb/embedded/verifrt"
)

// VerifH_ReadValueAtIntegrity: whatever bytes the value log holds and whatever offset/length the
// (possibly corrupted) entry points to, an integrity-checked value read either fails or returns
// exactly the value whose digest the entry carries.
func VerifH_ReadValueAtIntegrity() {
	olen := verifrt.Param("olen") // original value length
	clen := verifrt.Param("clen") // length claimed by the (corrupted) entry
	vlogLen := verifrt.Param("vlog")
	orig := verifrt.Bytes("orig", olen)
	hval := sha256.Sum256(orig)
	vlog := &verifMemApp{b: verifrt.Bytes("vlog", vlogLen)}
	st := &ImmuStore{maxIOConcurrency: 1, vLogs: map[byte]*refVLog{0: {vLog: vlog}}}
	off := verifrt.I64("off")
	verifrt.Assume(off >= 0 && off < 64)
	buf := make([]byte, clen)
	n, err := st.readValueAt(buf, encodeOffset(off, 1), hval, false)
	if err != nil {
		verifrt.Reach("rejected")
		return
	}
	verifrt.Reach("accepted")
	verifrt.Assert(n == olen && clen == olen, "length is the original length")
	verifrt.Assert(bytes.Equal(buf[:n], orig), "returned value is the original value")
}

// VerifH_ReadValueAtCached: the same obligation with the value cache enabled and the value read
// twice (a corrupted value must not be served from the cache either).
func VerifH_ReadValueAtCached() {
	olen := verifrt.Param("olen")
	vlogLen := verifrt.Param("vlog")
	orig := verifrt.Bytes("orig", olen)
	hval := sha256.Sum256(orig)
	vlog := &verifMemApp{b: verifrt.Bytes("vlog", vlogLen)}
	c, err := cache.NewCache(4)
	verifrt.Assume(err == nil)
	st := &ImmuStore{maxIOConcurrency: 1, vLogs: map[byte]*refVLog{0: {vLog: vlog}}, vLogCache: c}
	off := verifrt.I64("off")
	verifrt.Assume(off >= 0 && off < 16)
	for round := 0; round < 2; round++ {
		buf := make([]byte, olen)
		n, err := st.readValueAt(buf, encodeOffset(off, 1), hval, false)
		if err != nil {
			verifrt.Reach("rejected")
			continue
		}
		verifrt.Reach("accepted")
		verifrt.Assert(n == olen, "length is the original length")
		verifrt.Assert(bytes.Equal(buf[:n], orig), "returned value is the original value")
	}
}

// VerifH_TxReaderChain: a sequential scan accepts the next transaction only if it chains to the
// previous one (ascending: PrevAlh; descending: Alh).
func VerifH_TxReaderChain() {
	desc := verifrt.Param("desc") == 1
	version := verifrt.Param("version")
	h1 := verifAdvHeader(5, 4, version)
	h2 := verifAdvHeader(5, 4, version)
	h2.ID = verifrt.U64("h2.ID")
	calls := 0
	verifrt.Stub("(*embedded/store.ImmuStore).readTx", func(s *ImmuStore, txID uint64, allowPrecommitted bool, skipIntegrityCheck bool, tx *Tx) error {
		calls++
		if calls == 1 {
			tx.header = h1
		} else {
			tx.header = h2
		}
		return nil
	})
	st := &ImmuStore{}
	tx := &Tx{}
	r, err := st.newTxReader(5, desc, false, false, tx)
	verifrt.Assert(err == nil, "reader")
	_, err = r.Read()
	verifrt.Assert(err == nil, "first read")
	_, err = r.Read()
	if err != nil {
		verifrt.Reach("rejected")
		return
	}
	verifrt.Reach("accepted")
	if desc {
		verifrt.Assert(h1.PrevAlh == h2.Alh(), "descending scan: tx chains to the previous one")
	} else {
		verifrt.Assert(h2.PrevAlh == h1.Alh(), "ascending scan: tx chains to the previous one")
	}
}
