//go:build verif

package store

import (
	"bytes"
	"crypto/sha256"

	"github.com/codenotary/immudb/embedded/appendable"
	"github.com/codenotary/immudb/embedded/cache"
	"github.com/codenotary/immudb/embedded/verifrt"
)

// VerifH_ReadValueAtIntegrity: whatever bytes the value log holds and whatever offset/length the
// (possibly corrupted) entry points to, an integrity-checked value read either fails or returns
// exactly the value whose digest the entry carries.
func VerifH_ReadValueAtIntegrity() {
	olen := verifrt.Param("olen") // original value length
	clen := verifrt.Param("clen") // length claimed by the (corrupted) entry
	vlogLen := verifrt.Param("vlog")
	orig := verifrt.Bytes("orig", olen)
	hval := sha256.Sum256(orig)
	vlog := &verifMemApp{b: verifrt.Bytes("vlog", vlogLen)}
	st := &ImmuStore{maxIOConcurrency: 1, vLogs: map[byte]*refVLog{0: {vLog: vlog}}}
	off := verifrt.I64("off")
	verifrt.Assume(off >= 0 && off < 64)
	buf := make([]byte, clen)
	n, err := st.readValueAt(buf, encodeOffset(off, 1), hval, false)
	if err != nil {
		verifrt.Reach("rejected")
		return
	}
	verifrt.Reach("accepted")
	verifrt.Assert(n == olen && clen == olen, "length is the original length")
	verifrt.Assert(bytes.Equal(buf[:n], orig), "returned value is the original value")
}

// VerifH_ReadValueAtCached: the same obligation with the value cache enabled and the value read
// twice (a corrupted value must not be served from the cache either).
func VerifH_ReadValueAtCached() {
	olen := verifrt.Param("olen")
	vlogLen := verifrt.Param("vlog")
	orig := verifrt.Bytes("orig", olen)
	hval := sha256.Sum256(orig)
	vlog := &verifMemApp{b: verifrt.Bytes("vlog", vlogLen)}
	c, err := cache.NewCache(4)
	verifrt.Assume(err == nil)
	st := &ImmuStore{maxIOConcurrency: 1, vLogs: map[byte]*refVLog{0: {vLog: vlog}}, vLogCache: c}
	off := verifrt.I64("off")
	verifrt.Assume(off >= 0 && off < 16)
	for round := 0; round < 2; round++ {
		buf := make([]byte, olen)
		n, err := st.readValueAt(buf, encodeOffset(off, 1), hval, false)
		if err != nil {
			verifrt.Reach("rejected")
			continue
		}
		verifrt.Reach("accepted")
		verifrt.Assert(n == olen, "length is the original length")
		verifrt.Assert(bytes.Equal(buf[:n], orig), "returned value is the original value")
	}
}

// VerifH_ReadValueAtCacheShared: the value cache is keyed by offset only, so what an earlier
// read left there must not be served unchecked. An earlier read of the same offset -- with any
// expected length plen and digest, integrity check on or off (ExportTx reads with it off) --
// happens first, whatever its outcome; then an integrity-checked read for the entry (olen,
// digest of orig) returns orig or fails.
func VerifH_ReadValueAtCacheShared() {
	olen, plen := verifrt.Param("olen"), verifrt.Param("plen")
	orig := verifrt.Bytes("orig", olen)
	hval := sha256.Sum256(orig)
	vlog := &verifMemApp{b: verifrt.Bytes("vlog", verifrt.Param("vlog"))}
	c, err := cache.NewCache(4)
	verifrt.Assume(err == nil)
	st := &ImmuStore{maxIOConcurrency: 1, vLogs: map[byte]*refVLog{0: {vLog: vlog}}, vLogCache: c}
	off := verifrt.I64("off")
	verifrt.Assume(off >= 0 && off < 8)
	pbuf := make([]byte, plen)
	_, _ = st.readValueAt(pbuf, encodeOffset(off, 1), verifrt.Digest("otherDigest"), verifrt.Bool("otherSkipsCheck"))
	buf := make([]byte, olen)
	n, err := st.readValueAt(buf, encodeOffset(off, 1), hval, false)
	if err != nil {
		verifrt.Reach("rejected")
		return
	}
	verifrt.Reach("accepted")
	verifrt.Assert(n == olen, "length is the original length")
	verifrt.Assert(bytes.Equal(buf[:n], orig), "returned value is the original value")
}

// VerifH_TxReaderChain: a sequential scan accepts the next transaction only if it chains to the
// previous one (ascending: PrevAlh; descending: Alh).
func VerifH_TxReaderChain() {
	desc := verifrt.Param("desc") == 1
	version := verifrt.Param("version")
	h1 := verifAdvHeader(5, 4, version)
	h2 := verifAdvHeader(5, 4, version)
	h2.ID = verifrt.U64("h2.ID")
	calls := 0
	verifrt.Stub("(*embedded/store.ImmuStore).readTx", func(s *ImmuStore, txID uint64, allowPrecommitted bool, skipIntegrityCheck bool, tx *Tx) error {
		calls++
		if calls == 1 {
			tx.header = h1
		} else {
			tx.header = h2
		}
		return nil
	})
	st := &ImmuStore{}
	tx := &Tx{}
	r, err := st.newTxReader(5, desc, false, false, tx)
	verifrt.Assert(err == nil, "reader")
	_, err = r.Read()
	verifrt.Assert(err == nil, "first read")
	_, err = r.Read()
	if err != nil {
		verifrt.Reach("rejected")
		return
	}
	verifrt.Reach("accepted")
	if desc {
		verifrt.Assert(h1.PrevAlh == h2.Alh(), "descending scan: tx chains to the previous one")
	} else {
		verifrt.Assert(h2.PrevAlh == h1.Alh(), "ascending scan: tx chains to the previous one")
	}
}

// VerifH_TxRecordCorruption: the stored bytes of a committed transaction are replaced by
// ARBITRARY bytes (every single- and multi-bit alteration at once, lengths n). If the
// integrity-checked tx reader accepts them and the parsed header hashes to the Alh the rest of
// the system pins for this transaction (next record's PrevAlh, hash-tree leaf, commit log,
// client state), then what it returns is the original content: header fields, entry keys,
// metadata and value digests. Never a panic. Original: header version `version`, one entry
// with a 2-byte key. Stated bounds on the corrupted record: tx metadata block <= M bytes, entry
// metadata <= 1 byte (longer blocks are the subject of the metadata decoders in C16).
func VerifH_TxRecordCorruption() { verifTxRecord(true) }

// VerifH_TxRecordAnyLayout: the same obligation when the length fields of the corrupted record
// are arbitrary too (within the stated bounds).
func VerifH_TxRecordAnyLayout() { verifTxRecord(false) }

func verifTxRecord(fixedLayout bool) {
	version, n := verifrt.Param("version"), verifrt.Param("n")
	orig := NewTx(1, 4)
	orig.header = verifSymHeader(version, 0)
	orig.header.NEntries = 1
	orig.header.Metadata = nil
	oe := orig.entries[0]
	oe.setKey(verifrt.Bytes("o.key", 2))
	oe.hVal = verifrt.Digest("o.hVal")
	verifrt.Assume(orig.BuildHashTree() == nil)
	pinned := orig.header.Alh()

	b := verifrt.Bytes("record", n)
	// stated bounds on the corrupted record: tx metadata block <= M bytes, entry metadata block
	// <= 1 byte, keys <= 2 bytes, at most one entry (a record declaring more entries than the reader's buffer is
	// rejected up front)
	// the version field of the CORRUPTED record (bytes 88,89) is itself arbitrary; it is split
	// into three regimes by the shape parameter cver: 0, 1, or anything else
	cver := verifrt.Param("cver")
	verifrt.Assume(n >= 92)
	cv := int(b[88])<<8 | int(b[89])
	eoff := 92 // offset of the first entry's metadata length in a v0 record
	switch cver {
	case 0:
		verifrt.Assume(cv == 0)
	case 1:
		verifrt.Assume(cv == 1)
		mdLen := int(b[90])<<8 | int(b[91])
		verifrt.Assume(mdLen <= verifrt.Param("M"))
		eoff = 92 + mdLen + 4
	default:
		verifrt.Assume(cv >= 2)
	}
	if eoff+2 <= n {
		kvmdLen := int(b[eoff])<<8 | int(b[eoff+1])
		if !fixedLayout && verifrt.Param("K") == 99 {
			// second regime: a declared entry-metadata length beyond the legal maximum, up to
			// 40 (stated bound: larger declared lengths exceed the executor's allocation
			// bound); the reader must refuse it, never index with it
			verifrt.Assume(kvmdLen > maxKVMetadataLen && kvmdLen <= 40)
		} else {
			verifrt.Assume(kvmdLen <= 1)
		}
	}
	if fixedLayout {
		// every content byte is arbitrary; the length fields are those of the original
		// record (no tx metadata, one entry without metadata, 2-byte key)
		verifrt.Assume(cver == version && eoff+4 <= n)
		// (the length fields are overwritten with constants rather than assumed equal to them,
		// so that every read offset is a constant term)
		b[88], b[89] = 0, byte(cver)
		if cver == 1 {
			b[90], b[91], b[92], b[93], b[94], b[95] = 0, 0, 0, 0, 0, 1
		} else {
			b[90], b[91] = 0, 1
		}
		b[eoff], b[eoff+1], b[eoff+2], b[eoff+3] = 0, 0, 0, 2
	}
	r := appendable.NewReaderFrom(&verifMemApp{b: b}, 0, n+8)
	tx := NewTx(1, 2) // keys longer than 2 bytes are rejected by the reader
	err := tx.readFrom(r, false)
	if err != nil {
		verifrt.Reach("rejected")
		return
	}
	if tx.header.Alh() != pinned {
		return // not the transaction the chain pins at this position: detected by the chain checks
	}
	if fixedLayout {
		verifrt.Reach("accepted with the pinned Alh")
	}
	h, o := tx.header, orig.header
	verifrt.Assert(h.ID == o.ID && h.Ts == o.Ts && h.BlTxID == o.BlTxID && h.BlRoot == o.BlRoot && h.PrevAlh == o.PrevAlh, "header fields are the original ones")
	verifrt.Assert(h.Version == o.Version && h.NEntries == 1 && h.Eh == o.Eh, "version, entry count and Eh are the original ones")
	verifrt.Assert(len(verifMDBytes(h.Metadata)) == 0, "tx metadata is the original (empty) one")
	e := tx.entries[0]
	verifrt.Assert(bytes.Equal(e.key(), oe.key()), "entry key is the original one")
	verifrt.Assert(e.hVal == oe.hVal, "entry value digest is the original one")
	verifrt.Assert(len(verifKVMDBytes(e.md)) == 0, "entry metadata is the original (empty) one")
}

// VerifH_SlicedReaderAt: the reader that serves a transaction record from the tx-log cache. The
// offset and size it is asked for come from the commit log (on disk, possibly corrupted), the
// bytes from memory. For every record length, base offset, requested offset and buffer length
// (all symbolic, small) ReadAt never panics; a request outside the record is an error or an
// empty read; inside it, it delivers exactly the record bytes from that position, returns how
// many it delivered, and reports io.EOF iff the buffer was not filled.
func VerifH_SlicedReaderAt() {
	rl, bl := verifrt.Param("reclen"), verifrt.Param("buflen")
	rec := verifrt.Bytes("rec", rl)
	base, off := verifrt.I64("base"), verifrt.I64("off")
	verifrt.Assume(base >= 0 && base <= 8 && off >= 0 && off <= 24)
	r := &slicedReaderAt{bs: rec, off: base}
	buf := make([]byte, bl)
	n, err := r.ReadAt(buf, off)
	verifrt.Assert(n >= 0 && n <= bl, "the count returned is what was delivered")
	if off < base || off > base+int64(rl) {
		verifrt.Assert(err != nil || n == 0, "outside the record: an error or nothing")
		verifrt.Reach("outside")
		return
	}
	o := int(off - base)
	want := rl - o
	if want > bl {
		want = bl
	}
	verifrt.Assert(n == want, "delivers the record bytes available from that position, at most the buffer")
	for k := 0; k < bl; k++ {
		if k < n && o+k < rl {
			verifrt.Assert(buf[k] == rec[o+k], "the bytes are the record's, from the requested position")
		}
	}
	verifrt.Assert((err == verifEOF()) == (n < bl) && (err == nil || err == verifEOF()), "io.EOF iff the buffer was not filled")
	verifrt.Reach("inside")
}
