//go:build verif

package store

import (
	"bytes"
	"context"
	"time"

	"github.com/codenotary/immudb/pkg/helpers/semaphore"
	"github.com/codenotary/immudb/embedded/tbtree"
	"github.com/codenotary/immudb/embedded/verifrt"
	"github.com/codenotary/immudb/embedded/watchers"
	"github.com/prometheus/client_golang/prometheus"
)

type verifIdxEntry struct {
	key          []byte
	nonIndexable bool
}

// VerifH_IndexSinceBulk: what reaches the index. The indexer reads `bulk` committed transactions
// (1..2 entries each, symbolic 2-byte keys, symbolic non-indexable flag) through a tx reader that
// - like the real one - fills the indexer's pre-allocated Tx in place; the key/tx-id list handed
// to the tree's BulkInsert must be exactly one (key, txID) per indexable entry, in order.
func VerifH_IndexSinceBulk() {
	bulk := verifrt.Param("bulk")
	nent := verifrt.Param("entries")
	first := uint64(3)
	model := make([][]verifIdxEntry, bulk)
	txmd := make([]*TxMetadata, bulk) // optional tx metadata of each transaction
	for t := 0; t < bulk; t++ {
		if verifrt.Bool("hasTxMD") {
			txmd[t] = NewTxMetadata().WithTruncatedTxID(verifrt.U64("truncTx"))
		}
		for e := 0; e < nent; e++ {
			model[t] = append(model[t], verifIdxEntry{key: verifrt.Bytes("key", 2), nonIndexable: verifrt.Bool("nonIndexable")})
		}
	}
	verifrt.Stub("(*embedded/store.ImmuStore).readTx", func(s *ImmuStore, txID uint64, allowPrecommitted bool, skipIntegrityCheck bool, tx *Tx) error {
		t := int(txID - first)
		if t < 0 || t >= bulk {
			return ErrTxNotFound
		}
		tx.header = &TxHeader{ID: txID, NEntries: len(model[t]), Version: 1, Metadata: txmd[t]}
		for i, me := range model[t] {
			e := tx.entries[i]
			e.setKey(me.key) // in place, into the entry's own key buffer (as txDataReader.readEntry does)
			e.md = nil
			if me.nonIndexable {
				md := NewKVMetadata()
				md.AsNonIndexable(true)
				e.md = md
			}
			e.vLen, e.vOff = 1, int64(100*int(txID)+i)
		}
		return nil
	})
	verifrt.Stub("(*pkg/helpers/semaphore.Semaphore).Acquire", func(m *semaphore.Semaphore, n uint64) bool { return true })
	verifrt.Stub("(*embedded/watchers.WatchersHub).WaitFor", func(w *watchers.WatchersHub, ctx context.Context, t uint64) error { return nil })
	var gotKeys, gotVals [][]byte
	var gotTs []uint64
	inserted, tsOnly := false, uint64(0)
	verifrt.Stub("(*embedded/tbtree.TBtree).BulkInsert", func(t *tbtree.TBtree, kvts []*tbtree.KVT) error {
		inserted = true
		for _, kv := range kvts {
			gotKeys = append(gotKeys, append([]byte(nil), kv.K...)) // content as the tree receives it
			gotVals = append(gotVals, append([]byte(nil), kv.V...))
			gotTs = append(gotTs, kv.T)
		}
		return nil
	})
	verifrt.Stub("(*embedded/tbtree.TBtree).IncreaseTs", func(t *tbtree.TBtree, ts uint64) error {
		tsOnly = ts
		return nil
	})

	kvs := make([]*tbtree.KVT, bulk*nent)
	for i := range kvs {
		kvs[i] = &tbtree.KVT{}
	}
	idx := &indexer{
		store: &ImmuStore{}, spec: &IndexSpec{}, tx: NewTx(nent, 4), maxBulkSize: bulk, _kvs: kvs, bulkPreparationTimeout: time.Hour,
		metricsLastIndexedTrx: prometheus.NewGauge(prometheus.GaugeOpts{Name: "verif"}),
	}
	err := idx.indexSince(first)
	verifrt.Assert(err == nil, "indexing the bulk succeeds")
	verifrt.Reach("indexed")

	var wantKeys [][]byte
	var wantTs []uint64
	var wantMD [][]byte
	var wantOff []int64
	for t := 0; t < bulk; t++ {
		for i, me := range model[t] {
			if !me.nonIndexable {
				wantKeys = append(wantKeys, me.key)
				wantTs = append(wantTs, first+uint64(t))
				wantMD = append(wantMD, verifMDBytes(txmd[t]))
				wantOff = append(wantOff, int64(100*int(first+uint64(t))+i))
			}
		}
	}
	if len(wantKeys) == 0 {
		verifrt.Assert(!inserted && tsOnly == first+uint64(bulk)-1, "nothing indexable: only the logical time advances, to the last tx of the bulk")
		return
	}
	verifrt.Assert(inserted && len(gotKeys) == len(wantKeys), "one index entry per indexable entry")
	for i := 0; i < len(wantKeys) && i < len(gotKeys); i++ {
		verifrt.Assert(gotTs[i] == wantTs[i], "index entry carries the id of its transaction")
		verifrt.Assert(bytes.Equal(gotKeys[i], wantKeys[i]), "index entry carries the key of its entry")
		// the indexed value reference decodes to the entry's value location and its tx metadata
		ref, err := idx.store.valueRefFrom(gotTs[i], 1, gotVals[i])
		verifrt.Assert(err == nil, "indexed value reference decodes")
		verifrt.Assert(ref.VOff() == wantOff[i] && ref.Len() == 1, "indexed value reference points to the entry's value")
		verifrt.Assert(bytes.Equal(verifMDBytes(ref.TxMetadata()), wantMD[i]), "indexed value reference carries the metadata of its own transaction")
	}
}
