//go:build verif

package store

import (
	"context"
	"errors"

	"github.com/codenotary/immudb/embedded/verifrt"
)

// A two-phase sequential model of MVCC validation: the index state the transaction read from
// (old) and the index state at commit time (new = old + arbitrary later commits).
type verifKeyState struct {
	key     byte
	oldTx   uint64 // tx id of the latest version at read time (0: never written)
	oldKind byte   // 0 live, 1 logically deleted, 2 expired
	newTx   uint64 // the same at commit time
	newKind byte
}

// VerifH_MVCCPointReads: a read-write transaction performs `reads` point reads (Get) and prefix
// reads (GetWithPrefix with an exclusion key) of symbolic keys and writes one key; the index
// then advances arbitrarily. If checkPreconditions returns nil, every recorded read evaluated on
// the new state gives what the transaction observed; if the state did not change it returns nil.
func VerifH_MVCCPointReads() {
	reads := verifrt.Param("reads")
	usePrefix := verifrt.Param("prefix") == 1
	const nkeys = 3
	oldTs := verifrt.U64("oldTs")
	verifrt.Assume(oldTs >= 1 && oldTs <= 4)
	var m [nkeys]verifKeyState
	changed := false
	for i := range m {
		m[i].key = byte(i + 1) // distinct keys 1,2,3 (the reads pick among them or a 4th, absent key)
		m[i].oldTx = verifrt.U64("oldTx")
		m[i].oldKind = verifrt.Byte("oldKind")
		verifrt.Assume(m[i].oldTx <= oldTs && m[i].oldKind <= 2)
		m[i].newTx, m[i].newKind = m[i].oldTx, m[i].oldKind
		if verifrt.Bool("touched") {
			// a later commit wrote a new version of the key: live, a logical delete, or one
			// that is already expired
			m[i].newTx = verifrt.U64("newTx")
			m[i].newKind = verifrt.Byte("newKind")
			verifrt.Assume(m[i].newTx > oldTs && m[i].newTx <= oldTs+2 && m[i].newKind <= 2)
			changed = true
		}
	}
	oldSnap, newSnap := &Snapshot{}, &Snapshot{}
	// version of a key in a state; tx 0 when the key has no LIVE version there
	version := func(s *Snapshot, key []byte) (uint64, byte) {
		if len(key) != 1 {
			return 0, 0
		}
		for i := range m {
			if m[i].key == key[0] {
				if s == oldSnap {
					return m[i].oldTx, m[i].oldKind
				}
				return m[i].newTx, m[i].newKind
			}
		}
		return 0, 0
	}
	lookup := func(s *Snapshot, key []byte) uint64 {
		t, k := version(s, key)
		if k != 0 {
			return 0
		}
		return t
	}
	verifrt.Stub("(*embedded/store.OngoingTx).snap", func(tx *OngoingTx, key []byte) (*Snapshot, error) {
		if len(tx.snapshots) == 0 {
			tx.snapshots = append(tx.snapshots, oldSnap)
		}
		return oldSnap, nil
	})
	verifrt.Stub("(*embedded/store.ImmuStore).syncSnapshot", func(s *ImmuStore, prefix []byte) (*Snapshot, error) { return newSnap, nil })
	verifrt.Stub("(*embedded/store.Snapshot).Ts", func(s *Snapshot) uint64 { return oldTs })
	verifrt.Stub("(*embedded/store.Snapshot).Close", func(s *Snapshot) error { return nil })
	verifrt.Stub("(*embedded/store.Snapshot).GetWithFilters", func(s *Snapshot, ctx context.Context, key []byte, filters ...FilterFn) (ValueRef, error) {
		t, k := version(s, key)
		return verifVersionRef(t, k, filters)
	})
	// prefix read over 1-byte keys with the empty prefix: the smallest present key different from neq
	verifrt.Stub("(*embedded/store.Snapshot).GetWithPrefixAndFilters", func(s *Snapshot, ctx context.Context, prefix []byte, neq []byte, filters ...FilterFn) ([]byte, ValueRef, error) {
		for i := range m {
			if len(neq) == 1 && neq[0] == m[i].key {
				continue
			}
			t := lookup(s, []byte{m[i].key})
			if t != 0 {
				return []byte{m[i].key}, &valueRef{tx: t}, nil
			}
		}
		return nil, nil, ErrKeyNotFound
	})

	st := &ImmuStore{inmemPrecommittedTxID: oldTs + 2, mvccReadSetLimit: 100}
	tx := &OngoingTx{st: st, mode: ReadWriteTx, mvccReadSet: &mvccReadSet{}, entriesByKey: make(map[[32]byte]int), transientEntries: make(map[int]*EntrySpec)}

	type obs struct {
		prefixRead bool
		key        byte // point read: the key; prefix read: the exclusion key
		found      bool
		gotKey     byte
		gotTx      uint64
	}
	var seen []obs
	for r := 0; r < reads; r++ {
		k := verifrt.Byte("readKey")
		verifrt.Assume(k >= 1 && k <= nkeys+1)
		if usePrefix && verifrt.Bool("asPrefixRead") {
			key, ref, err := tx.GetWithPrefix(context.Background(), []byte{}, []byte{k})
			o := obs{prefixRead: true, key: k}
			if err == nil {
				o.found, o.gotKey, o.gotTx = true, key[0], ref.Tx()
			} else {
				verifrt.Assume(errors.Is(err, ErrKeyNotFound))
			}
			seen = append(seen, o)
		} else {
			ref, err := tx.Get(context.Background(), []byte{k})
			o := obs{key: k}
			if err == nil {
				o.found, o.gotTx = true, ref.Tx()
			} else {
				verifrt.Assume(errors.Is(err, ErrKeyNotFound))
			}
			seen = append(seen, o)
		}
	}
	err := tx.checkPreconditions(context.Background(), st)
	if err != nil {
		verifrt.Assert(errors.Is(err, ErrTxReadConflict), "only read conflicts are reported")
		verifrt.Assert(changed, "no spurious conflict when nothing changed")
		verifrt.Reach("conflict")
		return
	}
	verifrt.Reach("validated")
	// every recorded read, re-evaluated on the state at commit time, gives the observed result
	for _, o := range seen {
		if o.prefixRead {
			var gk byte
			var gt uint64
			for i := nkeys - 1; i >= 0; i-- {
				if lt := lookup(newSnap, []byte{m[i].key}); m[i].key != o.key && lt != 0 {
					gk, gt = m[i].key, lt
				}
			}
			verifrt.Assert((gt != 0) == o.found, "prefix read: same found/not-found at commit time")
			if o.found {
				verifrt.Assert(gk == o.gotKey && gt == o.gotTx, "prefix read: same key and version at commit time")
			}
		} else {
			t := lookup(newSnap, []byte{o.key})
			verifrt.Assert((t != 0) == o.found, "point read: same found/not-found at commit time")
			if o.found {
				verifrt.Assert(t == o.gotTx, "point read: same version at commit time")
			}
		}
	}
}

// verifModelReader is a KeyReader over one of the two model states: it serves the raw entries
// (every key with a version, whatever its kind) in key order, as the tree reader does for a
// spec without filters.
type verifModelReader struct {
	m   []verifKeyState
	old bool
	pos int
}

func (r *verifModelReader) next(lo, hi uint64, ranged bool) ([]byte, ValueRef, error) {
	for r.pos < len(r.m) {
		e := r.m[r.pos]
		r.pos++
		t, k := e.newTx, e.newKind
		if r.old {
			t, k = e.oldTx, e.oldKind
		}
		if t == 0 || (ranged && (t < lo || t > hi)) {
			continue
		}
		ref, _ := verifVersionRef(t, k, nil)
		return []byte{e.key}, ref, nil
	}
	return nil, nil, ErrNoMoreEntries
}
func (r *verifModelReader) Read(ctx context.Context) ([]byte, ValueRef, error) {
	return r.next(0, 0, false)
}
func (r *verifModelReader) ReadBetween(ctx context.Context, lo, hi uint64) ([]byte, ValueRef, error) {
	return r.next(lo, hi, true)
}
func (r *verifModelReader) Reset() error { r.pos = 0; return nil }
func (r *verifModelReader) Close() error { return nil }

// VerifH_MVCCRangeReads: range scans in the read set ("no phantoms"). A read-write transaction
// scans the keys of the index through the real ongoingTxKeyReader (filters for deleted/expired
// entries optional, `reads` calls to Read); the index then advances arbitrarily: keys are
// updated, deleted, or INSERTED into the scanned range. The real checkPreconditions replays the
// recorded reads on the state at commit time:
//  * soundness - if it passes, the raw entries the scan consumed (key and version of each,
//    and "end of range" if it got there) are the same on the commit-time state: no entry was
//    changed, removed or inserted before the point the scan reached;
//  * no spurious conflict - if those entries are the same, it passes.
func VerifH_MVCCRangeReads() {
	reads := verifrt.Param("reads")
	fsel := verifrt.Param("filters")
	const nkeys = 3
	oldTs := verifrt.U64("oldTs")
	verifrt.Assume(oldTs >= 1 && oldTs <= 4)
	m := make([]verifKeyState, nkeys)
	for i := range m {
		m[i].key = byte(i + 1)
		m[i].oldTx = verifrt.U64("oldTx")
		m[i].oldKind = verifrt.Byte("oldKind")
		verifrt.Assume(m[i].oldTx <= oldTs && m[i].oldKind <= 2)
		m[i].newTx, m[i].newKind = m[i].oldTx, m[i].oldKind
		if verifrt.Bool("touched") {
			// a later commit wrote the key (an update, a delete, or the insertion of a new key)
			m[i].newTx = verifrt.U64("newTx")
			m[i].newKind = verifrt.Byte("newKind")
			verifrt.Assume(m[i].newTx > oldTs && m[i].newTx <= oldTs+2 && m[i].newKind <= 2)
		}
	}
	oldSnap, newSnap := &Snapshot{}, &Snapshot{}
	verifrt.Stub("(*embedded/store.OngoingTx).snap", func(tx *OngoingTx, key []byte) (*Snapshot, error) {
		if len(tx.snapshots) == 0 {
			tx.snapshots = append(tx.snapshots, oldSnap)
		}
		return oldSnap, nil
	})
	verifrt.Stub("(*embedded/store.ImmuStore).syncSnapshot", func(s *ImmuStore, prefix []byte) (*Snapshot, error) { return newSnap, nil })
	verifrt.Stub("(*embedded/store.Snapshot).Ts", func(s *Snapshot) uint64 { return oldTs })
	verifrt.Stub("(*embedded/store.Snapshot).Close", func(s *Snapshot) error { return nil })
	verifrt.Stub("(*embedded/store.Snapshot).NewKeyReader", func(s *Snapshot, spec KeyReaderSpec) (KeyReader, error) {
		verifrt.Assert(len(spec.Filters) == 0 && spec.Offset == 0, "the raw reader is asked without filters and offset")
		return &verifModelReader{m: m, old: s == oldSnap}, nil
	})
	st := &ImmuStore{inmemPrecommittedTxID: oldTs + 2, mvccReadSetLimit: 100}
	tx := &OngoingTx{st: st, mode: ReadWriteTx, mvccReadSet: &mvccReadSet{}, entriesByKey: make(map[[32]byte]int), transientEntries: make(map[int]*EntrySpec), ts: verifNow()}
	var filters []FilterFn
	if fsel&1 != 0 {
		filters = append(filters, IgnoreDeleted)
	}
	if fsel&2 != 0 {
		filters = append(filters, IgnoreExpired)
	}
	kr, err := tx.NewKeyReader(KeyReaderSpec{Filters: filters})
	verifrt.Assert(err == nil, "reader over the transaction's snapshot")
	for r := 0; r < reads; r++ {
		_, _, err := kr.Read(context.Background())
		if err != nil {
			verifrt.Assume(errors.Is(err, ErrNoMoreEntries))
			break
		}
	}
	// the raw entries the scan consumed, as recorded
	consumed := 0
	for _, rs := range tx.mvccReadSet.expectedReaders {
		consumed += len(rs.expectedReads[0])
	}
	// raw sequences of both states: (key, tx) in key order, then the end marker
	same := true
	oi, ni := 0, 0
	for c := 0; c < consumed; c++ {
		for oi < nkeys && m[oi].oldTx == 0 {
			oi++
		}
		for ni < nkeys && m[ni].newTx == 0 {
			ni++
		}
		switch {
		case oi == nkeys && ni == nkeys:
		case oi == nkeys || ni == nkeys:
			same = false
		default:
			if m[oi].key != m[ni].key || m[oi].oldTx != m[ni].newTx {
				same = false
			}
		}
		if oi < nkeys {
			oi++
		}
		if ni < nkeys {
			ni++
		}
	}
	err = tx.checkPreconditions(context.Background(), st)
	if err != nil {
		verifrt.Assert(errors.Is(err, ErrTxReadConflict), "only read conflicts are reported")
		verifrt.Assert(!same, "no spurious conflict when the scanned entries did not change")
		verifrt.Reach("conflict")
		return
	}
	verifrt.Assert(same, "validation passed: the scanned entries are the same at commit time (no phantom, no lost or changed entry)")
	verifrt.Reach("validated")
}

// verifOwnAwareReader is verifModelReader for the transaction's own snapshot: keys the transaction
// has written itself show up as own writes (version 0), whether or not they exist in the index.
type verifOwnAwareReader struct {
	verifModelReader
	own *byte // key written by the transaction (0: none)
}

func (r *verifOwnAwareReader) Read(ctx context.Context) ([]byte, ValueRef, error) {
	for r.pos < len(r.m) {
		e := r.m[r.pos]
		r.pos++
		if *r.own != 0 && e.key == *r.own {
			return []byte{e.key}, &ongoingValRef{}, nil
		}
		if e.oldTx == 0 {
			continue
		}
		ref, _ := verifVersionRef(e.oldTx, e.oldKind, nil)
		return []byte{e.key}, ref, nil
	}
	return nil, nil, ErrNoMoreEntries
}

// VerifH_MVCCRangeReadsReset: a scan that is reset and repeated, with an own write in between.
// Pass 1 reads r1 entries; the transaction then (symbolically) writes one of the keys itself;
// the reader is Reset; pass 2 reads r2 entries (the own write now shows as such). The index
// then advances arbitrarily. The real checkPreconditions passes iff BOTH recorded passes, minus
// the transaction's own writes, are still what the commit-time state gives: a version the first
// pass saw stays validated even though the second pass saw the key only as an own write.
func VerifH_MVCCRangeReadsReset() {
	r1, r2 := verifrt.Param("r1"), verifrt.Param("r2")
	const nkeys = 3
	oldTs := verifrt.U64("oldTs")
	verifrt.Assume(oldTs >= 1 && oldTs <= 4)
	m := make([]verifKeyState, nkeys)
	for i := range m {
		m[i].key = byte(i + 1)
		m[i].oldTx = verifrt.U64("oldTx")
		verifrt.Assume(m[i].oldTx <= oldTs)
		m[i].newTx = m[i].oldTx
		if verifrt.Bool("touched") {
			m[i].newTx = verifrt.U64("newTx")
			verifrt.Assume(m[i].newTx > oldTs && m[i].newTx <= oldTs+2)
		}
	}
	var own byte
	oldSnap, newSnap := &Snapshot{}, &Snapshot{}
	verifrt.Stub("(*embedded/store.OngoingTx).snap", func(tx *OngoingTx, key []byte) (*Snapshot, error) {
		if len(tx.snapshots) == 0 {
			tx.snapshots = append(tx.snapshots, oldSnap)
		}
		return oldSnap, nil
	})
	verifrt.Stub("(*embedded/store.ImmuStore).syncSnapshot", func(s *ImmuStore, prefix []byte) (*Snapshot, error) { return newSnap, nil })
	verifrt.Stub("(*embedded/store.Snapshot).Ts", func(s *Snapshot) uint64 { return oldTs })
	verifrt.Stub("(*embedded/store.Snapshot).Close", func(s *Snapshot) error { return nil })
	verifrt.Stub("(*embedded/store.Snapshot).NewKeyReader", func(s *Snapshot, spec KeyReaderSpec) (KeyReader, error) {
		if s == oldSnap {
			return &verifOwnAwareReader{verifModelReader: verifModelReader{m: m, old: true}, own: &own}, nil
		}
		return &verifModelReader{m: m}, nil
	})
	st := &ImmuStore{inmemPrecommittedTxID: oldTs + 2, mvccReadSetLimit: 100, maxKeyLen: 8, maxValueLen: 8, maxTxEntries: 8}
	tx := &OngoingTx{st: st, mode: ReadWriteTx, mvccReadSet: &mvccReadSet{}, entriesByKey: make(map[[32]byte]int), transientEntries: make(map[int]*EntrySpec), ts: verifNow()}
	kr, err := tx.NewKeyReader(KeyReaderSpec{})
	verifrt.Assert(err == nil, "reader over the transaction's snapshot")
	for r := 0; r < r1; r++ {
		if _, _, err := kr.Read(context.Background()); err != nil {
			verifrt.Assume(errors.Is(err, ErrNoMoreEntries))
			break
		}
	}
	w := verifrt.Byte("ownWrite")
	verifrt.Assume(w <= nkeys)
	if w != 0 {
		verifrt.Assert(tx.Set([]byte{w}, nil, []byte{7}) == nil, "own write")
		own = w
	}
	verifrt.Assert(kr.Reset() == nil, "reader reset")
	for r := 0; r < r2; r++ {
		if _, _, err := kr.Read(context.Background()); err != nil {
			verifrt.Assume(errors.Is(err, ErrNoMoreEntries))
			break
		}
	}
	verifrt.Assert(len(tx.mvccReadSet.expectedReaders) == 1 && len(tx.mvccReadSet.expectedReaders[0].expectedReads) == 2, "two passes recorded")
	// a recorded pass is still valid iff its entries other than own writes are, in order, the
	// entries of the commit-time state other than the key the transaction wrote itself
	stillValid := func(rec []expectedRead, ownKey byte) bool {
		idx := 0
		next := func() (byte, uint64, bool) {
			for idx < nkeys {
				e := m[idx]
				idx++
				if e.newTx == 0 || e.key == ownKey {
					continue
				}
				return e.key, e.newTx, true
			}
			return 0, 0, false
		}
		for _, r := range rec {
			if r.expectedNoMoreEntries {
				_, _, more := next()
				return !more
			}
			if r.expectedTx == 0 {
				continue
			}
			k, t, ok := next()
			if !ok || len(r.expectedKey) != 1 || k != r.expectedKey[0] || t != r.expectedTx {
				return false
			}
		}
		return true
	}
	passes := tx.mvccReadSet.expectedReaders[0].expectedReads
	same := stillValid(passes[0], 0) && stillValid(passes[1], own)
	err = tx.checkPreconditions(context.Background(), st)
	if err != nil {
		verifrt.Assert(errors.Is(err, ErrTxReadConflict), "only read conflicts are reported")
		verifrt.Assert(!same, "no spurious conflict when both passes are still valid")
		verifrt.Reach("conflict")
		return
	}
	verifrt.Assert(same, "validation passed: every pass is still valid at commit time")
	verifrt.Reach("validated")
}
