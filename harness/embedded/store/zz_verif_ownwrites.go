//go:build verif

package store

import (
	"bytes"
	"context"
	"crypto/sha256"
	"time"

	"github.com/codenotary/immudb/embedded/tbtree"
	"github.com/codenotary/immudb/embedded/verifrt"
)

// VerifH_ReadYourOwnWrites: inside a read-write transaction every read sees the transaction's
// own latest write, through every index. The store has a plain index (prefix "a") and a mapped
// one (entries under "a" re-keyed under "b" by a target mapper, as SQL does for rows and their
// index entries). The transaction performs nsets Sets of symbolic values on keys picked
// symbolically among two; then, for each of the two keys and each index, the real
// OngoingTx.Get (real snap(), real SnapshotMustIncludeTxIDWithRenewalPeriod, real
// Snapshot.GetWithFilters and ref interceptor; the tree snapshot below is a recorder of the
// keys set into it) returns the LAST value written to that key, or not-found when the key was
// never written. The pending write set holds exactly one entry per written key, with its last value.
func VerifH_ReadYourOwnWrites() {
	nsets := verifrt.Param("nsets")
	plain := &indexer{spec: &IndexSpec{SourcePrefix: []byte("a"), TargetPrefix: []byte("a")}}
	mapped := &indexer{spec: &IndexSpec{SourcePrefix: []byte("a"), TargetPrefix: []byte("b"),
		TargetEntryMapper: func(key, value []byte) ([]byte, error) {
			return append([]byte("b"), key[1:]...), nil
		}}}
	st := &ImmuStore{maxKeyLen: 16, maxValueLen: 16, maxTxEntries: 16, mvccReadSetLimit: 1000, logger: verifLogger{},
		indexers: map[[sha256.Size]byte]*indexer{sha256.Sum256([]byte("a")): plain, sha256.Sum256([]byte("b")): mapped}}
	plain.store, mapped.store = st, st
	// tree snapshots: one per index, recording the keys set into them
	snapOf := map[*indexer]*tbtree.Snapshot{plain: {}, mapped: {}}
	var setKeys [][]byte
	var setSnaps []*tbtree.Snapshot
	verifrt.Stub("(*embedded/store.indexer).WaitForIndexingUpto", func(idx *indexer, ctx context.Context, txID uint64) error { return nil })
	verifrt.Stub("(*embedded/store.indexer).SnapshotMustIncludeTxIDWithRenewalPeriod", func(idx *indexer, ctx context.Context, txID uint64, p time.Duration) (*tbtree.Snapshot, error) {
		return snapOf[idx], nil
	})
	verifrt.Stub("(*embedded/tbtree.Snapshot).Set", func(s *tbtree.Snapshot, key, value []byte) error {
		setKeys = append(setKeys, append([]byte(nil), key...))
		setSnaps = append(setSnaps, s)
		return nil
	})
	verifrt.Stub("(*embedded/tbtree.Snapshot).Get", func(s *tbtree.Snapshot, key []byte) ([]byte, uint64, uint64, error) {
		for i := range setKeys {
			if setSnaps[i] == s && bytes.Equal(setKeys[i], key) {
				return make([]byte, lszSize+offsetSize+sha256.Size+sszSize+sszSize), 0, 1, nil
			}
		}
		return nil, 0, 0, tbtree.ErrKeyNotFound
	})
	tx := &OngoingTx{st: st, ctx: context.Background(), mode: ReadWriteTx, mvccReadSet: &mvccReadSet{},
		entriesByKey: make(map[[sha256.Size]byte]int), transientEntries: make(map[int]*EntrySpec), ts: verifNow()}

	keys := [][]byte{[]byte("a1"), []byte("a2")}
	var last [2][]byte
	var written [2]bool
	for i := 0; i < nsets; i++ {
		v := verifrt.Bytes("value", 1)
		k := 0
		if verifrt.Bool("second") {
			k = 1
		}
		verifrt.Assert(tx.Set(keys[k], nil, v) == nil, "set succeeds")
		last[k], written[k] = v, true
	}
	nwritten := 0
	for k := 0; k < 2; k++ {
		for _, target := range [][]byte{keys[k], append([]byte("b"), keys[k][1:]...)} {
			ref, err := tx.Get(context.Background(), target)
			if !written[k] {
				verifrt.Assert(err == ErrKeyNotFound, "a key never written is not found")
				continue
			}
			verifrt.Assert(err == nil, "a key written by the transaction is found through every index")
			val, err := ref.Resolve()
			verifrt.Assert(err == nil && bytes.Equal(val, last[k]), "the read returns the transaction's last write to the key")
			verifrt.Reach("own write read back")
		}
		if written[k] {
			nwritten++
		}
	}
	verifrt.Assert(len(tx.entries) == nwritten, "one pending entry per written key")
	for _, e := range tx.entries {
		for k := 0; k < 2; k++ {
			if bytes.Equal(e.Key, keys[k]) {
				verifrt.Assert(bytes.Equal(e.Value, last[k]), "pending entry carries the last value")
			}
		}
	}
}
