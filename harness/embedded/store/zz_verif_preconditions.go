//go:build verif

package store

import (
	"context"
	"errors"

	"github.com/codenotary/immudb/embedded/verifrt"
)

// VerifH_PreconditionsKernel: a conditional write is admitted (checkPreconditions == nil) if and
// only if every precondition holds on the index state it is evaluated on. State: 2 keys with a
// symbolic latest version (tx id, 0 = never written) that is live, logically deleted or expired; `n` preconditions of symbolic kind, key, tx id.
func VerifH_PreconditionsKernel() {
	n := verifrt.Param("n")
	var latest [3]uint64 // key bytes 1,2 ; index 0 unused: tx id of the latest version (0: never written)
	var kind [3]byte      // 0 live, 1 logically deleted, 2 expired
	latest[1], latest[2] = verifrt.U64("v1"), verifrt.U64("v2")
	kind[1], kind[2] = verifrt.Byte("kind1"), verifrt.Byte("kind2")
	verifrt.Assume(latest[1] <= 5 && latest[2] <= 5 && kind[1] <= 2 && kind[2] <= 2)
	lookup := func(key []byte) (uint64, byte) {
		if len(key) == 1 && (key[0] == 1 || key[0] == 2) {
			return latest[key[0]], kind[key[0]]
		}
		return 0, 0
	}
	live := func(key []byte) bool {
		t, k := lookup(key)
		return t != 0 && k == 0
	}
	// the index read the preconditions go through; (*ImmuStore).Get is the real one
	verifrt.Stub("(*embedded/store.ImmuStore).GetWithFilters", func(s *ImmuStore, ctx context.Context, key []byte, filters ...FilterFn) (ValueRef, error) {
		t, k := lookup(key)
		return verifVersionRef(t, k, filters)
	})
	st := &ImmuStore{maxKeyLen: 4}
	tx := &OngoingTx{st: st, mode: WriteOnlyTx}
	allHold := true
	for i := 0; i < n; i++ {
		kind := verifrt.Byte("kind") % 3
		k := verifrt.Byte("key")
		verifrt.Assume(k >= 1 && k <= 3)
		txid := verifrt.U64("txid")
		verifrt.Assume(txid >= 1 && txid <= 6)
		var c Precondition
		var holds bool
		switch kind {
		case 0:
			c, holds = &PreconditionKeyMustExist{Key: []byte{k}}, live([]byte{k})
		case 1:
			c, holds = &PreconditionKeyMustNotExist{Key: []byte{k}}, !live([]byte{k})
		default:
			lt, _ := lookup([]byte{k})
			c, holds = &PreconditionKeyNotModifiedAfterTx{Key: []byte{k}, TxID: txid}, lt <= txid
		}
		verifrt.Assert(c.Validate(st) == nil, "well-formed precondition validates")
		verifrt.Assert(tx.AddPrecondition(c) == nil, "precondition accepted")
		allHold = allHold && holds
	}
	err := tx.checkPreconditions(context.Background(), st)
	if err == nil {
		verifrt.Reach("admitted")
		verifrt.Assert(allHold, "admitted only if every precondition holds")
	} else {
		verifrt.Reach("refused")
		verifrt.Assert(errors.Is(err, ErrPreconditionFailed), "refusal reports a failed precondition")
		verifrt.Assert(!allHold, "refused only if some precondition fails")
	}
	// malformed preconditions are rejected by Validate
	verifrt.Assert((&PreconditionKeyMustExist{}).Validate(st) != nil, "empty key rejected")
	verifrt.Assert((&PreconditionKeyMustNotExist{Key: make([]byte, 5)}).Validate(st) != nil, "over-long key rejected")
	verifrt.Assert((&PreconditionKeyNotModifiedAfterTx{Key: []byte{1}}).Validate(st) != nil, "tx id 0 rejected")
}
