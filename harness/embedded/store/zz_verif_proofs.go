//go:build verif

package store

import (
	"bytes"
	"crypto/sha256"

	"github.com/codenotary/immudb/embedded/ahtree"
	"github.com/codenotary/immudb/embedded/verifrt"
)

// ---------------- reference definitions ----------------

func verifAHTNode(l, r [sha256.Size]byte) [sha256.Size]byte {
	var b [1 + 2*sha256.Size]byte
	b[0] = ahtree.NodePrefix
	copy(b[1:], l[:])
	copy(b[1+sha256.Size:], r[:])
	return sha256.Sum256(b[:])
}

// verifAHTRoot is the reference root (RFC 6962 shape) of the tree whose leaves are the given
// accumulated hashes.
func verifAHTRoot(alhs [][sha256.Size]byte) [sha256.Size]byte {
	n := len(alhs)
	if n == 1 {
		return leafFor(alhs[0])
	}
	k := 1
	for k*2 < n {
		k *= 2
	}
	return verifAHTNode(verifAHTRoot(alhs[:k]), verifAHTRoot(alhs[k:]))
}

// verifHist is an honest history: headers 1..n built with the real Alh code; every payload
// field is symbolic; the binary-linking tree lags the chain by `lag` transactions.
type verifHist struct {
	hdr []*TxHeader         // hdr[id]
	alh [][sha256.Size]byte // alh[id]
}

func verifHonestHistory(n, lag, version int) *verifHist {
	h := &verifHist{hdr: make([]*TxHeader, n+1), alh: make([][sha256.Size]byte, n+1)}
	for id := 1; id <= n; id++ {
		hd := &TxHeader{
			ID:       uint64(id),
			Ts:       verifrt.I64("h.Ts"),
			Version:  version,
			NEntries: int(verifrt.U16("h.NEntries")),
			Eh:       verifrt.Digest("h.Eh"),
			PrevAlh:  h.alh[id-1],
		}
		bl := id - lag
		if bl < 0 {
			bl = 0
		}
		hd.BlTxID = uint64(bl)
		if bl > 0 {
			hd.BlRoot = verifAHTRoot(h.alh[1 : bl+1])
		}
		h.hdr[id] = hd
		h.alh[id] = hd.Alh()
	}
	return h
}

// verifAdvHeader is a header chosen by the adversary: every hashed field symbolic except the
// id and the binary-linking id, which are shape parameters.
func verifAdvHeader(id, bl, version int) *TxHeader {
	return &TxHeader{
		ID:       uint64(id),
		Ts:       verifrt.I64("a.Ts"),
		BlTxID:   uint64(bl),
		BlRoot:   verifrt.Digest("a.BlRoot"),
		PrevAlh:  verifrt.Digest("a.PrevAlh"),
		Version:  version,
		NEntries: int(verifrt.U16("a.NEntries")),
		Eh:       verifrt.Digest("a.Eh"),
	}
}

// verifAdvDualProof is a dual proof chosen by the adversary for (src -> tgt): every digest is
// symbolic, tree-proof lengths are symbolic in 0..L, and the lengths that VerifyDualProof
// compares with the ids are the ones it requires (any other length is rejected outright).
func verifAdvDualProof(src, tgt *TxHeader, L int) *DualProof {
	p := &DualProof{
		SourceTxHeader:     src,
		TargetTxHeader:     tgt,
		InclusionProof:     verifrt.DigestsUpTo("p.incl", L),
		ConsistencyProof:   verifrt.DigestsUpTo("p.cons", L+1),
		TargetBlTxAlh:      verifrt.Digest("p.blAlh"),
		LastInclusionProof: verifrt.DigestsUpTo("p.last", L),
	}
	s, t, tbl, sbl := int(src.ID), int(tgt.ID), int(tgt.BlTxID), int(src.BlTxID)
	var lsrc, aStart, aEnd int
	if s < tbl {
		lsrc = tbl
		aStart, aEnd = sbl, s
	} else {
		lsrc = s
		aStart, aEnd = sbl, tbl
	}
	if lsrc <= t {
		p.LinearProof = &LinearProof{SourceTxID: uint64(lsrc), TargetTxID: uint64(t), Terms: verifrt.Digests("p.lin", t-lsrc+1)}
	}
	if aEnd > aStart+1 {
		la := &LinearAdvanceProof{
			LinearProofTerms: verifrt.Digests("p.adv", aEnd-aStart),
			InclusionProofs:  make([][][sha256.Size]byte, aEnd-aStart-1),
		}
		for i := range la.InclusionProofs {
			la.InclusionProofs[i] = verifrt.DigestsUpTo("p.advIncl", L)
		}
		p.LinearAdvanceProof = la
	}
	return p
}

func verifMergeVerifiers() {
	verifrt.Merge("embedded/ahtree.VerifyInclusion")
	verifrt.Merge("embedded/ahtree.VerifyConsistency")
	verifrt.Merge("embedded/ahtree.VerifyLastInclusion")
	verifrt.Merge("embedded/store.VerifyLinearProof")
	verifrt.Merge("embedded/store.VerifyLinearAdvanceProof")
	verifrt.Merge("embedded/store.VerifyDualProof")
}

// ---------------- obligations ----------------

// VerifH_AlhBinding: two headers with the same Alh agree on every hashed field.
func VerifH_AlhBinding() {
	v1, v2 := verifrt.Param("v1"), verifrt.Param("v2")
	h1 := verifSymHeader(v1, verifrt.Param("e1"))
	h2 := verifSymHeader(v2, verifrt.Param("e2"))
	// NEntries is hashed as 16 (v0) / 32 (v1) bits: the range ReadFrom can produce
	verifrt.Assume(h1.NEntries >= 0 && h2.NEntries >= 0)
	if v1 == 0 {
		verifrt.Assume(h1.NEntries <= 0xFFFF)
	} else {
		verifrt.Assume(h1.NEntries <= 0xFFFFFFFF)
	}
	if v2 == 0 {
		verifrt.Assume(h2.NEntries <= 0xFFFF)
	} else {
		verifrt.Assume(h2.NEntries <= 0xFFFFFFFF)
	}
	if h1.Alh() != h2.Alh() {
		return
	}
	verifrt.Reach("same alh")
	verifrt.Assert(h1.ID == h2.ID, "ID")
	verifrt.Assert(h1.PrevAlh == h2.PrevAlh, "PrevAlh")
	verifrt.Assert(h1.Ts == h2.Ts, "Ts")
	verifrt.Assert(h1.Version == h2.Version, "Version")
	verifrt.Assert(h1.NEntries == h2.NEntries, "NEntries")
	verifrt.Assert(h1.Eh == h2.Eh, "Eh")
	verifrt.Assert(h1.BlTxID == h2.BlTxID, "BlTxID")
	verifrt.Assert(h1.BlRoot == h2.BlRoot, "BlRoot")
	verifrt.Assert(bytes.Equal(verifMDBytes(h1.Metadata), verifMDBytes(h2.Metadata)), "Metadata")
}

func verifSymEntrySpec(klen, vlen int) *EntrySpec {
	e := &EntrySpec{Key: verifrt.Bytes("e.key", klen)}
	if verifrt.Bool("e.hasMD") {
		e.Metadata = verifSymKVMetadata()
	}
	if verifrt.Bool("e.truncated") {
		e.IsValueTruncated = true
		e.HashValue = verifrt.Digest("e.hval")
	} else {
		e.Value = verifrt.Bytes("e.val", vlen)
	}
	return e
}

func verifKVMDBytes(md *KVMetadata) []byte {
	if md == nil {
		return nil
	}
	return md.Bytes()
}

func verifValueDigest(e *EntrySpec, version int) [sha256.Size]byte {
	if version == 1 && e.IsValueTruncated {
		return e.HashValue
	}
	return sha256.Sum256(e.Value)
}

// VerifH_EntryDigestBinding: two entry specs with the same digest (same header version) agree
// on key, metadata bytes and value digest.
func VerifH_EntryDigestBinding() {
	version := verifrt.Param("version")
	e1 := verifSymEntrySpec(verifrt.Param("k1"), verifrt.Param("vl1"))
	e2 := verifSymEntrySpec(verifrt.Param("k2"), verifrt.Param("vl2"))
	var d1, d2 [sha256.Size]byte
	if version == 0 {
		// v0 has no metadata and no truncated values
		verifrt.Assume(e1.Metadata == nil && e2.Metadata == nil && !e1.IsValueTruncated && !e2.IsValueTruncated)
		d1, d2 = EntrySpecDigest_v0(e1), EntrySpecDigest_v0(e2)
	} else {
		d1, d2 = EntrySpecDigest_v1(e1), EntrySpecDigest_v1(e2)
	}
	if d1 != d2 {
		return
	}
	verifrt.Reach("same digest")
	verifrt.Assert(bytes.Equal(e1.Key, e2.Key), "key")
	verifrt.Assert(bytes.Equal(verifKVMDBytes(e1.Metadata), verifKVMDBytes(e2.Metadata)), "metadata")
	verifrt.Assert(verifValueDigest(e1, version) == verifValueDigest(e2, version), "value digest")
	if !e1.IsValueTruncated && !e2.IsValueTruncated {
		verifrt.Assert(bytes.Equal(e1.Value, e2.Value), "value")
	}
}

// VerifH_LinearProofBinding: a linear proof accepted against the honest Alh of tx t binds the
// source Alh (and every term) to the honest chain.
func VerifH_LinearProofBinding() {
	s, t := verifrt.Param("s"), verifrt.Param("t")
	if s > t {
		verifrt.Skip()
	}
	h := verifHonestHistory(t, 1, verifrt.Param("version"))
	nterms := verifrt.Param("nterms")
	p := &LinearProof{SourceTxID: verifrt.U64("p.src"), TargetTxID: verifrt.U64("p.tgt"), Terms: verifrt.Digests("p.term", nterms)}
	srcAlh := verifrt.Digest("srcAlh")
	if !VerifyLinearProof(p, uint64(s), uint64(t), srcAlh, h.alh[t]) {
		return
	}
	verifrt.Reach("accepted")
	verifrt.Assert(nterms == t-s+1, "proof length")
	verifrt.Assert(srcAlh == h.alh[s], "source alh is the honest one")
	for i := 1; i < nterms && s+i <= t; i++ {
		verifrt.Assert(p.Terms[i] == h.hdr[s+i].innerHash(), "term is the honest inner hash")
	}
}

// VerifH_DualProofChain: client-history form of "no forged past".
// Honest prefix 1..s (trusted state (s, alh_s)); one or two adversarial state advances accepted
// by VerifyDualProof; then a verified read of a transaction k <= s against the last accepted
// state. Accepted => the claimed Alh of k is the honest one.
func VerifH_DualProofChain() {
	s, t, blT := verifrt.Param("s"), verifrt.Param("t"), verifrt.Param("blT")
	t2, blT2 := verifrt.Param("t2"), verifrt.Param("blT2")
	k, blK := verifrt.Param("k"), verifrt.Param("blK")
	lag, L, version := verifrt.Param("lag"), verifrt.Param("L"), verifrt.Param("version")
	if !(s >= 1 && t > s && blT < t && k >= 1 && k <= s && blK < k) {
		verifrt.Skip()
	}
	if t2 != 0 && !(t2 > t && blT2 < t2) {
		verifrt.Skip()
	}
	if t2 == 0 && blT2 != 0 {
		verifrt.Skip()
	}
	verifMergeVerifiers()
	h := verifHonestHistory(s, lag, version)

	// first advance: s -> t. The source header of the proof hashes to the trusted Alh, hence
	// (VerifH_AlhBinding) it is the honest header.
	tgt := verifAdvHeader(t, blT, version)
	pA := verifAdvDualProof(h.hdr[s], tgt, L)
	tgtAlh := tgt.Alh()
	verifrt.Assume(VerifyDualProof(pA, uint64(s), uint64(t), h.alh[s], tgtAlh))
	verifrt.Reach("first advance accepted")
	last, lastAlh, lastID := tgt, tgtAlh, t

	if t2 != 0 {
		tgt2 := verifAdvHeader(t2, blT2, version)
		pB := verifAdvDualProof(tgt, tgt2, L)
		tgt2Alh := tgt2.Alh()
		verifrt.Assume(VerifyDualProof(pB, uint64(t), uint64(t2), tgtAlh, tgt2Alh))
		verifrt.Reach("second advance accepted")
		last, lastAlh, lastID = tgt2, tgt2Alh, t2
	}

	// verified read of tx k <= s against the last accepted state
	src := verifAdvHeader(k, blK, version)
	pR := verifAdvDualProof(src, last, L)
	srcAlh := src.Alh()
	if !VerifyDualProof(pR, uint64(k), uint64(lastID), srcAlh, lastAlh) {
		return
	}
	verifrt.Reach("read accepted")
	verifrt.Assert(srcAlh == h.alh[k], "accepted past transaction is the honest one")
}

// verifLagShapes enumerates every binary-linking history of n transactions: BlTxID_1 = 0 and
// BlTxID_{i-1} <= BlTxID_i <= i-1 (the tree a transaction links to never shrinks and never
// includes the transaction itself); lag 1 everywhere is the last shape of the lexicographic order.
func verifLagShapes(n int) [][]int {
	var out [][]int
	var rec func(cur []int)
	rec = func(cur []int) {
		id := len(cur)
		if id > n {
			out = append(out, append([]int(nil), cur...))
			return
		}
		for b := cur[id-1]; b <= id-1; b++ {
			rec(append(cur, b))
		}
	}
	rec([]int{0, 0})
	return out
}

// VerifH_DualProofComplete: completeness. An honest history of n transactions (payload fields
// symbolic, real Alh code, real AHtree on in-memory logs as the binary-linking tree, every lag
// shape of BlTxID -- all of verifLagShapes(n), split over lagChunks jobs) is served by the real proof
// generators (ImmuStore.DualProof / DualProofV2 / LinearProof over a tx reader stub); for every
// 1 <= s <= t <= n the generated proofs verify against (alh_s, alh_t).
func VerifH_DualProofComplete() {
	n, version := verifrt.Param("n"), verifrt.Param("version")
	chunk, chunks := verifrt.Param("lagChunk"), verifrt.Param("lagChunks")
	// payload fields of the n transactions: the same symbolic values under every lag shape
	ts, ne, eh := make([]int64, n+1), make([]int, n+1), make([][sha256.Size]byte, n+1)
	for id := 1; id <= n; id++ {
		ts[id], ne[id], eh[id] = verifrt.I64("h.Ts"), int(verifrt.U16("h.NEntries")), verifrt.Digest("h.Eh")
	}
	var hdr []*TxHeader
	verifrt.Stub("(*embedded/store.ImmuStore).readTx", func(s *ImmuStore, txID uint64, allowPrecommitted bool, skipIntegrityCheck bool, tx *Tx) error {
		if txID < 1 || txID > uint64(n) {
			return ErrTxNotFound
		}
		tx.header = hdr[txID]
		return nil
	})
	verifrt.Stub("(*embedded/store.ImmuStore).ReadTxHeader", func(s *ImmuStore, txID uint64, allowPrecommitted bool, skipIntegrityCheck bool) (*TxHeader, error) {
		if txID < 1 || txID > uint64(n) {
			return nil, ErrTxNotFound
		}
		return hdr[txID], nil
	})
	verifrt.Stub("(*embedded/store.ImmuStore).fetchAllocTx", func(s *ImmuStore) (*Tx, error) { return &Tx{}, nil })
	verifrt.Stub("(*embedded/store.ImmuStore).releaseAllocTx", func(s *ImmuStore, tx *Tx) {})
	for si, bl := range verifLagShapes(n) {
		if si%chunks != chunk {
			continue
		}
		aht, err := ahtree.OpenWith(&verifMemApp{}, &verifMemApp{}, &verifMemApp{}, ahtree.DefaultOptions().WithSyncThld(4))
		verifrt.Assert(err == nil, "tree opens")
		hdr = make([]*TxHeader, n+1)
		alh := make([][sha256.Size]byte, n+1)
		for id := 1; id <= n; id++ {
			h := &TxHeader{ID: uint64(id), Ts: ts[id], Version: version, NEntries: ne[id],
				Eh: eh[id], PrevAlh: alh[id-1], BlTxID: uint64(bl[id])}
			if bl[id] > 0 {
				r, err := aht.RootAt(uint64(bl[id]))
				verifrt.Assert(err == nil, "root of the tree over earlier transactions")
				verifrt.Assert(r == verifAHTRoot(alh[1:bl[id]+1]), "tree root equals the reference root")
				h.BlRoot = r
			}
			hdr[id], alh[id] = h, h.Alh()
			_, _, err := aht.Append(alh[id][:])
			verifrt.Assert(err == nil, "tree append")
		}
		st := &ImmuStore{aht: aht}
		for s := 1; s <= n; s++ {
			for t := s; t <= n; t++ {
				p, err := st.DualProof(hdr[s], hdr[t])
				verifrt.Assert(err == nil, "dual proof generated")
				verifrt.Assert(VerifyDualProof(p, uint64(s), uint64(t), alh[s], alh[t]), "generated dual proof verifies")
				p2, err := st.DualProofV2(hdr[s], hdr[t])
				if bl[s] == s-1 && bl[t] == t-1 {
					verifrt.Assert(err == nil, "dual proof v2 generated")
					verifrt.Assert(VerifyDualProofV2(p2, uint64(s), uint64(t), alh[s], alh[t]) == nil, "generated dual proof v2 verifies")
				} else {
					// the v2 format only exists for histories without lag on both ends
					verifrt.Assert(err != nil, "dual proof v2 refused for lagging transactions")
				}
				lp, err := st.LinearProof(uint64(s), uint64(t))
				verifrt.Assert(err == nil, "linear proof generated")
				verifrt.Assert(VerifyLinearProof(lp, uint64(s), uint64(t), alh[s], alh[t]), "generated linear proof verifies")
			}
		}
	}
	verifrt.Reach("all proofs verified")
}

// VerifH_EntryProofComplete: completeness of entry inclusion proofs. A transaction of ne entries
// (symbolic keys of concrete lengths kl_i -- pairwise distinct, as the store requires --, symbolic
// value digests, no metadata) gets its entry tree from the real BuildHashTree; for every entry
// the proof served by the real Tx.Proof(key) (IndexOf + htree.InclusionProof) verifies for that
// entry's digest against Eh, and the proved leaf is the entry's own position.
func VerifH_EntryProofComplete() {
	version, ne := verifrt.Param("version"), verifrt.Param("ne")
	kls := []int{verifrt.Param("kl1"), verifrt.Param("kl2"), verifrt.Param("kl3")}
	tx := NewTx(ne, 4)
	tx.header = &TxHeader{ID: verifrt.U64("hdr.ID"), Ts: verifrt.I64("hdr.Ts"), Version: version, NEntries: ne}
	keys := make([][]byte, ne)
	for i := 0; i < ne; i++ {
		keys[i] = verifrt.Bytes("key", kls[i])
		for j := 0; j < i; j++ {
			verifrt.Assume(!bytes.Equal(keys[i], keys[j]))
		}
		e := tx.entries[i]
		e.setKey(keys[i])
		e.hVal = verifrt.Digest("hVal")
		e.vLen = int(verifrt.U16("vLen"))
	}
	verifrt.Assert(tx.BuildHashTree() == nil, "entry tree built")
	txEntryDigest, err := tx.header.TxEntryDigest()
	verifrt.Assert(err == nil, "entry digest function")
	for i := 0; i < ne; i++ {
		idx, err := tx.IndexOf(keys[i])
		verifrt.Assert(err == nil && idx == i, "IndexOf finds the entry holding exactly this key")
		p, err := tx.Proof(keys[i])
		verifrt.Assert(err == nil, "entry proof generated")
		d, err := txEntryDigest(tx.entries[i])
		verifrt.Assert(err == nil, "entry digest")
		verifrt.Assert(VerifyInclusion(p, d, tx.header.Eh), "generated entry proof verifies for the entry")
	}
	_, err = tx.IndexOf(verifrt.Bytes("absent", verifrt.Param("kl1")))
	if err == nil {
		verifrt.Reach("probe key present")
	} else {
		verifrt.Assert(err == ErrKeyNotFound, "absent key reported as not found")
	}
	verifrt.Reach("all entry proofs verified")
}

// VerifH_ProofVerifiersTotal: proof messages are untrusted input of the client. For headers with
// ANY version number (and every other field symbolic), proofs with symbolic digests and term
// counts up to L, and symbolic ids / trusted digests, VerifyDualProof, VerifyDualProofV2 and
// VerifyLinearProof return a verdict: they never panic.
func VerifH_ProofVerifiersTotal() {
	L := verifrt.Param("L")
	hdr := func(name string) *TxHeader {
		h := &TxHeader{ID: verifrt.U64(name + ".ID"), Ts: verifrt.I64(name + ".Ts"), BlTxID: verifrt.U64(name + ".BlTxID"),
			BlRoot: verifrt.Digest(name + ".BlRoot"), PrevAlh: verifrt.Digest(name + ".PrevAlh"),
			Version: int(verifrt.I64(name + ".Version")), NEntries: int(verifrt.I64(name + ".NEntries")), Eh: verifrt.Digest(name + ".Eh")}
		verifrt.Assume(h.ID <= 6 && h.BlTxID <= 6)
		return h
	}
	src, tgt := hdr("src"), hdr("tgt")
	srcID, tgtID := verifrt.U64("srcID"), verifrt.U64("tgtID")
	srcAlh, tgtAlh := verifrt.Digest("srcAlh"), verifrt.Digest("tgtAlh")
	switch verifrt.Param("which") {
	case 0:
		p := &DualProof{SourceTxHeader: src, TargetTxHeader: tgt,
			InclusionProof: verifrt.DigestsUpTo("p.incl", L), ConsistencyProof: verifrt.DigestsUpTo("p.cons", L),
			TargetBlTxAlh: verifrt.Digest("p.tbl"), LastInclusionProof: verifrt.DigestsUpTo("p.last", L),
			LinearProof:        &LinearProof{SourceTxID: verifrt.U64("lp.src"), TargetTxID: verifrt.U64("lp.tgt"), Terms: verifrt.DigestsUpTo("lp.term", L)},
			LinearAdvanceProof: &LinearAdvanceProof{LinearProofTerms: verifrt.DigestsUpTo("lap.term", L)}}
		if VerifyDualProof(p, srcID, tgtID, srcAlh, tgtAlh) {
			verifrt.Reach("accepted")
		} else {
			verifrt.Reach("rejected")
		}
	case 1:
		p := &DualProofV2{SourceTxHeader: src, TargetTxHeader: tgt,
			InclusionProof: verifrt.DigestsUpTo("p.incl", L), ConsistencyProof: verifrt.DigestsUpTo("p.cons", L)}
		if VerifyDualProofV2(p, srcID, tgtID, srcAlh, tgtAlh) == nil {
			verifrt.Reach("accepted")
		} else {
			verifrt.Reach("rejected")
		}
	default:
		p := &LinearProof{SourceTxID: verifrt.U64("lp.src"), TargetTxID: verifrt.U64("lp.tgt"), Terms: verifrt.DigestsUpTo("lp.term", L)}
		if VerifyLinearProof(p, srcID, tgtID, srcAlh, tgtAlh) {
			verifrt.Reach("accepted")
		} else {
			verifrt.Reach("rejected")
		}
	}
}
