//go:build verif

package store

import (
	"bytes"
	"context"
	"crypto/sha256"

	"github.com/codenotary/immudb/embedded/verifrt"
)

type verifSetCall struct {
	key       []byte
	md        *KVMetadata
	value     []byte
	hash      [sha256.Size]byte
	truncated bool
}

// verifReplicaStubs replaces what ReplicateTx calls after (and around) its parsing prologue:
// the write-only transaction is a recorder and precommit captures the header and stops.
func verifReplicaStubs(sets *[]verifSetCall, gotHdr **TxHeader, reached *bool) {
	verifrt.Stub("(*embedded/store.ImmuStore).NewWriteOnlyTx", func(s *ImmuStore, ctx context.Context) (*OngoingTx, error) {
		return &OngoingTx{st: s}, nil
	})
	verifrt.Stub("(*embedded/store.OngoingTx).set", func(tx *OngoingTx, key []byte, md *KVMetadata, value []byte, hashValue [sha256.Size]byte, isValueTruncated, isTransient bool) error {
		*sets = append(*sets, verifSetCall{key: key, md: md, value: value, hash: hashValue, truncated: isValueTruncated})
		return nil
	})
	verifrt.Stub("(*embedded/store.ImmuStore).precommit", func(s *ImmuStore, ctx context.Context, otx *OngoingTx, hdr *TxHeader, skipIntegrityCheck bool) (*TxHeader, error) {
		*gotHdr = hdr
		*reached = true
		return nil, ErrAlreadyClosed
	})
}

// VerifH_ReplicateTxTotal: ReplicateTx's parsing prologue is total on every exported-tx byte
// string of length n that carries a version-hv header with its length prefix (so that the entry loop
// and the trailer are reached): error or a call to precommit, never a panic, and no
// input-controlled allocation beyond the budget.
func VerifH_ReplicateTxTotal() {
	n := verifrt.Param("n")
	b := verifrt.Bytes("b", n)
	hv := verifrt.Param("hv")
	hl := 124 + 4*hv // v0: 124 bytes; v1 with an empty metadata block: 128 bytes
	if hv == 1 && n > 4 && n < 4+hl {
		verifrt.Skip() // lengths below a full v1 header are covered by the hv=0 jobs
	}
	if n >= 4+hl {
		// header length prefix, header version hv (bytes 4+48, 4+49), v1: empty metadata block
		verifrt.Assume(b[0] == 0 && b[1] == 0 && b[2] == 0 && int(b[3]) == hl)
		verifrt.Assume(b[4+48] == 0 && int(b[4+49]) == hv)
		if hv == 1 {
			verifrt.Assume(b[4+50] == 0 && b[4+51] == 0)
		}
	}
	verifrt.AllocLimit(1 << 20)
	var sets []verifSetCall
	var hdr *TxHeader
	reached := false
	verifReplicaStubs(&sets, &hdr, &reached)
	st := &ImmuStore{maxKeyLen: 1024, maxValueLen: 4096, maxTxEntries: 1024}
	_, err := st.ReplicateTx(context.Background(), b, false, false)
	verifrt.Assert(err != nil, "stubbed precommit or a parse error ends the call")
	if reached {
		verifrt.Reach("parsed")
		verifrt.Assert(len(sets) == hdr.NEntries, "one set per declared entry")
	} else {
		verifrt.Reach("rejected")
	}
}

// VerifH_ExportReplicateRoundTrip: ReplicateTx(ExportTx(tx)) hands precommit the same header
// and the same (key, metadata, value | digest, truncated) list.
func VerifH_ExportReplicateRoundTrip() {
	version := verifrt.Param("version")
	nentries := verifrt.Param("nentries")
	klen, vlen := verifrt.Param("klen"), verifrt.Param("vlen")
	truncated := verifrt.Param("truncated") == 1

	// the transaction served by the (stubbed) tx reader
	hdr := verifSymHeader(version, verifrt.Param("extra"))
	hdr.NEntries = nentries
	verifrt.Assume(hdr.ID >= 1 && hdr.BlTxID < hdr.ID)
	entries := make([]*TxEntry, nentries)
	vals := make([][]byte, nentries)
	for i := range entries {
		var md *KVMetadata
		if version == 1 && verifrt.Bool("e.hasMD") {
			md = verifSymKVMetadata()
		}
		vals[i] = verifrt.Bytes("e.val", vlen)
		entries[i] = NewTxEntry(verifrt.Bytes("e.key", klen), md, vlen, sha256.Sum256(vals[i]), int64(i))
	}
	verifrt.Stub("(*embedded/store.ImmuStore).readTx", func(s *ImmuStore, txID uint64, allowPrecommitted bool, skipIntegrityCheck bool, tx *Tx) error {
		tx.header = hdr
		tx.entries = entries
		return nil
	})
	verifrt.Stub("(*embedded/store.ImmuStore).readValueAt", func(s *ImmuStore, b []byte, off int64, hvalue [sha256.Size]byte, skipIntegrityCheck bool) (int, error) {
		if truncated {
			return 0, verifEOF()
		}
		copy(b, vals[off])
		return len(b), nil
	})
	var sets []verifSetCall
	var got *TxHeader
	reached := false
	verifReplicaStubs(&sets, &got, &reached)

	st := &ImmuStore{maxKeyLen: 1024, maxValueLen: 4096, maxTxEntries: 1024}
	exported, err := st.ExportTx(hdr.ID, false, false, &Tx{})
	verifrt.Assert(err == nil, "export succeeds")
	_, err = st.ReplicateTx(context.Background(), exported, false, false)
	verifrt.Assert(reached, "replicate reaches precommit")
	verifrt.Reach("replicated")
	verifrt.Assert(got.Alh() == hdr.Alh() && got.NEntries == hdr.NEntries && got.Version == hdr.Version, "same header")
	verifrt.Assert(bytes.Equal(verifMDBytes(got.Metadata), verifMDBytes(hdr.Metadata)), "same tx metadata")
	verifrt.Assert(len(sets) == nentries, "same number of entries")
	for i := 0; i < nentries && i < len(sets); i++ {
		verifrt.Assert(bytes.Equal(sets[i].key, entries[i].key()), "same key")
		verifrt.Assert(bytes.Equal(verifKVMDBytes(sets[i].md), verifKVMDBytes(entries[i].md)), "same entry metadata")
		verifrt.Assert(sets[i].truncated == truncated, "same truncation flag")
		if truncated {
			verifrt.Assert(sets[i].hash == entries[i].hVal, "same value digest")
		} else {
			verifrt.Assert(bytes.Equal(sets[i].value, vals[i]), "same value")
		}
	}
}
