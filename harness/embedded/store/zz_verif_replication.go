//go:build verif

package store

import (
	"bytes"
	"context"
	"crypto/sha256"

	"github.com/codenotary/immudb/embedded/ahtree"
	"github.com/codenotary/immudb/embedded/verifrt"
	"github.com/codenotary/immudb/embedded/watchers"
)

type verifSetCall struct {
	key       []byte
	md        *KVMetadata
	value     []byte
	hash      [sha256.Size]byte
	truncated bool
}

// verifReplicaStubs replaces what ReplicateTx calls after (and around) its parsing prologue:
// the write-only transaction is a recorder and precommit captures the header and stops.
func verifReplicaStubs(sets *[]verifSetCall, gotHdr **TxHeader, reached *bool) {
	verifrt.Stub("(*embedded/store.ImmuStore).NewWriteOnlyTx", func(s *ImmuStore, ctx context.Context) (*OngoingTx, error) {
		return &OngoingTx{st: s}, nil
	})
	verifrt.Stub("(*embedded/store.OngoingTx).set", func(tx *OngoingTx, key []byte, md *KVMetadata, value []byte, hashValue [sha256.Size]byte, isValueTruncated, isTransient bool) error {
		*sets = append(*sets, verifSetCall{key: key, md: md, value: value, hash: hashValue, truncated: isValueTruncated})
		return nil
	})
	verifrt.Stub("(*embedded/store.ImmuStore).precommit", func(s *ImmuStore, ctx context.Context, otx *OngoingTx, hdr *TxHeader, skipIntegrityCheck bool) (*TxHeader, error) {
		*gotHdr = hdr
		*reached = true
		return nil, ErrAlreadyClosed
	})
}

// VerifH_ReplicateTxTotal: ReplicateTx's parsing prologue is total on every exported-tx byte
// string of length n that carries a version-hv header with its length prefix (so that the entry loop
// and the trailer are reached): error or a call to precommit, never a panic, and no
// input-controlled allocation beyond the budget.
func VerifH_ReplicateTxTotal() {
	n := verifrt.Param("n")
	b := verifrt.Bytes("b", n)
	hv := verifrt.Param("hv")
	hl := 124 + 4*hv // v0: 124 bytes; v1 with an empty metadata block: 128 bytes
	if hv == 1 && n > 4 && n < 4+hl {
		verifrt.Skip() // lengths below a full v1 header are covered by the hv=0 jobs
	}
	if n >= 4+hl {
		// header length prefix, header version hv (bytes 4+48, 4+49), v1: empty metadata block
		verifrt.Assume(b[0] == 0 && b[1] == 0 && b[2] == 0 && int(b[3]) == hl)
		verifrt.Assume(b[4+48] == 0 && int(b[4+49]) == hv)
		if hv == 1 {
			verifrt.Assume(b[4+50] == 0 && b[4+51] == 0)
		}
	}
	verifrt.AllocLimit(1 << 20)
	var sets []verifSetCall
	var hdr *TxHeader
	reached := false
	verifReplicaStubs(&sets, &hdr, &reached)
	st := &ImmuStore{maxKeyLen: 1024, maxValueLen: 4096, maxTxEntries: 1024}
	_, err := st.ReplicateTx(context.Background(), b, false, false)
	verifrt.Assert(err != nil, "stubbed precommit or a parse error ends the call")
	if reached {
		verifrt.Reach("parsed")
		verifrt.Assert(len(sets) == hdr.NEntries, "one set per declared entry")
	} else {
		verifrt.Reach("rejected")
	}
}

// VerifH_ExportReplicateRoundTrip: ReplicateTx(ExportTx(tx)) hands precommit the same header
// and the same (key, metadata, value | digest, truncated) list.
func VerifH_ExportReplicateRoundTrip() {
	version := verifrt.Param("version")
	nentries := verifrt.Param("nentries")
	klen, vlen := verifrt.Param("klen"), verifrt.Param("vlen")
	truncated := verifrt.Param("truncated") == 1

	// the transaction served by the (stubbed) tx reader
	hdr := verifSymHeader(version, verifrt.Param("extra"))
	hdr.NEntries = nentries
	verifrt.Assume(hdr.ID >= 1 && hdr.BlTxID < hdr.ID)
	entries := make([]*TxEntry, nentries)
	vals := make([][]byte, nentries)
	for i := range entries {
		var md *KVMetadata
		if version == 1 && verifrt.Bool("e.hasMD") {
			md = verifSymKVMetadata()
		}
		vals[i] = verifrt.Bytes("e.val", vlen)
		entries[i] = NewTxEntry(verifrt.Bytes("e.key", klen), md, vlen, sha256.Sum256(vals[i]), int64(i))
	}
	verifrt.Stub("(*embedded/store.ImmuStore).readTx", func(s *ImmuStore, txID uint64, allowPrecommitted bool, skipIntegrityCheck bool, tx *Tx) error {
		tx.header = hdr
		tx.entries = entries
		return nil
	})
	verifrt.Stub("(*embedded/store.ImmuStore).readValueAt", func(s *ImmuStore, b []byte, off int64, hvalue [sha256.Size]byte, skipIntegrityCheck bool) (int, error) {
		if truncated {
			return 0, verifEOF()
		}
		copy(b, vals[off])
		return len(b), nil
	})
	var sets []verifSetCall
	var got *TxHeader
	reached := false
	verifReplicaStubs(&sets, &got, &reached)

	st := &ImmuStore{maxKeyLen: 1024, maxValueLen: 4096, maxTxEntries: 1024}
	exported, err := st.ExportTx(hdr.ID, false, false, &Tx{})
	verifrt.Assert(err == nil, "export succeeds")
	_, err = st.ReplicateTx(context.Background(), exported, false, false)
	verifrt.Assert(reached, "replicate reaches precommit")
	verifrt.Reach("replicated")
	verifrt.Assert(got.Alh() == hdr.Alh() && got.NEntries == hdr.NEntries && got.Version == hdr.Version, "same header")
	verifrt.Assert(bytes.Equal(verifMDBytes(got.Metadata), verifMDBytes(hdr.Metadata)), "same tx metadata")
	verifrt.Assert(len(sets) == nentries, "same number of entries")
	for i := 0; i < nentries && i < len(sets); i++ {
		verifrt.Assert(bytes.Equal(sets[i].key, entries[i].key()), "same key")
		verifrt.Assert(bytes.Equal(verifKVMDBytes(sets[i].md), verifKVMDBytes(entries[i].md)), "same entry metadata")
		verifrt.Assert(sets[i].truncated == truncated, "same truncation flag")
		if truncated {
			verifrt.Assert(sets[i].hash == entries[i].hVal, "same value digest")
		} else {
			verifrt.Assert(bytes.Equal(sets[i].value, vals[i]), "same value")
		}
	}
}

// VerifH_ReplicaPrecommit: on a replica (a header is provided), precommit reaches
// performPrecommit only if the header extends the replica's chain: ID = last+1, PrevAlh = last
// Alh, BlRoot = the replica's own root at BlTxID, entry count matches and (integrity check on)
// Eh matches the entries. Replica pre-state, header and entry are symbolic.
func VerifH_ReplicaPrecommit() {
	last := verifrt.U64("last")
	verifrt.Assume(last <= 5)
	lastAlh := verifrt.Digest("lastAlh")
	rootOracle := verifrt.Digest("replicaRoot") // the replica's tree root at hdr.BlTxID
	skip := verifrt.Bool("skipIntegrityCheck")

	hdr := verifAdvHeader(0, 0, 1)
	hdr.ID = verifrt.U64("hdr.ID")
	hdr.BlTxID = verifrt.U64("hdr.BlTxID")
	verifrt.Assume(hdr.ID <= 8 && hdr.BlTxID <= 8)
	hdr.NEntries = int(verifrt.Byte("hdr.NEntries"))

	e := &EntrySpec{Key: verifrt.Bytes("key", 2), Value: verifrt.Bytes("val", 1)}
	otx := &OngoingTx{entries: []*EntrySpec{e}}

	alloc := NewTx(2, 4)
	verifrt.Stub("(*embedded/store.ImmuStore).fetchAllocTx", func(s *ImmuStore) (*Tx, error) { return alloc, nil })
	verifrt.Stub("(*embedded/store.ImmuStore).releaseAllocTx", func(s *ImmuStore, tx *Tx) {})
	verifrt.Stub("(*embedded/watchers.WatchersHub).WaitFor", func(w *watchers.WatchersHub, ctx context.Context, t uint64) error { return nil })
	verifrt.Stub("(*embedded/ahtree.AHtree).RootAt", func(t *ahtree.AHtree, n uint64) ([sha256.Size]byte, error) { return rootOracle, nil })
	performed := false
	var pTs int64
	var pBl uint64
	verifrt.Stub("(*embedded/store.ImmuStore).performPrecommit", func(s *ImmuStore, tx *Tx, entries []*EntrySpec, ts int64, blTxID uint64) error {
		performed = true
		pTs, pBl = ts, blTxID
		return nil
	})
	st := &ImmuStore{maxTxEntries: 4, maxKeyLen: 4, maxValueLen: 4, maxActiveTransactions: 100, embeddedValues: true,
		inmemPrecommittedTxID: last, inmemPrecommittedAlh: lastAlh}

	_, err := st.precommit(context.Background(), otx, hdr, skip)
	if !performed {
		verifrt.Assert(err != nil, "a rejected transaction reports an error")
		verifrt.Reach("rejected")
		return
	}
	verifrt.Reach("accepted")
	verifrt.Assert(hdr.ID == last+1, "id is the successor of the last precommitted tx")
	verifrt.Assert(hdr.PrevAlh == lastAlh, "PrevAlh is the replica's last Alh")
	if hdr.BlTxID > 0 {
		verifrt.Assert(hdr.BlRoot == rootOracle, "BlRoot is the replica's root at BlTxID")
	} else {
		verifrt.Assert(hdr.BlRoot == [sha256.Size]byte{}, "BlRoot is empty without binary linking")
	}
	verifrt.Assert(hdr.NEntries == 1, "entry count matches")
	verifrt.Assert(pTs == hdr.Ts && pBl == hdr.BlTxID, "timestamp and BlTxID taken from the header")
	if !skip {
		verifrt.Assert(alloc.header.Eh == hdr.Eh, "Eh matches the entries")
	}
}

// VerifH_ExportAfterTruncation: exporting a transaction whose values were (partly) truncated
// terminates with a result or an explicit error and never leaves the store unable to serve the
// next export. Each of the nentries values is, symbolically, still readable, truncated away
// (the value log reports EOF) or unreadable for another reason. Whatever ExportTx returns:
//  * the store's value buffer lock is released (the next ExportTx would otherwise block forever);
//  * a fully readable tx is exported with its values, a fully truncated one by digests; a mix of
//    the two is an explicit error, as is any other read failure.
func VerifH_ExportAfterTruncation() {
	version, nentries := verifrt.Param("version"), verifrt.Param("nentries")
	hdr := verifSymHeader(version, 0)
	hdr.NEntries = nentries
	verifrt.Assume(hdr.ID >= 1 && hdr.BlTxID < hdr.ID)
	entries := make([]*TxEntry, nentries)
	vals := make([][]byte, nentries)
	state := make([]byte, nentries) // 0 readable, 1 truncated (EOF), 2 other failure
	nTrunc, nFail := 0, 0
	for i := range entries {
		vals[i] = verifrt.Bytes("e.val", 1)
		entries[i] = NewTxEntry(verifrt.Bytes("e.key", 1), nil, 1, sha256.Sum256(vals[i]), int64(i))
		state[i] = verifrt.Byte("e.state")
		verifrt.Assume(state[i] <= 2)
		if state[i] == 1 {
			nTrunc++
		}
		if state[i] == 2 {
			nFail++
		}
	}
	verifrt.Stub("(*embedded/store.ImmuStore).readTx", func(s *ImmuStore, txID uint64, allowPrecommitted bool, skipIntegrityCheck bool, tx *Tx) error {
		tx.header = hdr
		tx.entries = entries
		return nil
	})
	verifrt.Stub("(*embedded/store.ImmuStore).readValueAt", func(s *ImmuStore, b []byte, off int64, hvalue [sha256.Size]byte, skipIntegrityCheck bool) (int, error) {
		switch state[off] {
		case 1:
			return 0, verifEOF()
		case 2:
			return 0, ErrCorruptedData
		}
		copy(b, vals[off])
		return len(b), nil
	})
	st := &ImmuStore{maxKeyLen: 1024, maxValueLen: 4096, maxTxEntries: 1024}
	exported, err := st.ExportTx(hdr.ID, false, false, &Tx{})
	released := st._valBsMux.TryLock()
	verifrt.Assert(released, "the value buffer lock is released when ExportTx returns")
	if released {
		st._valBsMux.Unlock()
	}
	switch {
	case nFail > 0 && err == nil:
		// a failure after a mixed prefix may be reported as the mix instead: either way an error
		verifrt.Assert(false, "an unreadable value is an explicit error")
	case nFail == 0 && nTrunc != 0 && nTrunc != nentries:
		verifrt.Assert(err != nil, "a partially truncated transaction is an explicit error")
		verifrt.Reach("partially truncated")
	case nFail == 0:
		verifrt.Assert(err == nil && len(exported) > 0, "fully readable or fully truncated transactions are exported")
		verifrt.Reach("exported")
	}
}
