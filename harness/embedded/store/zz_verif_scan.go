//go:build verif

package store

import (
	"bytes"
	"context"
	"time"

	"github.com/codenotary/immudb/embedded/tbtree"
	"github.com/codenotary/immudb/embedded/verifrt"
)

type verifScanEntry struct {
	key  []byte
	val  []byte
	tx   uint64
	hc   uint64
	kind byte // 0 live, 1 logically deleted, 2 expired (at verifNow)
}

// verifIndexedValue is the index value the real indexer writes for an entry of the given kind
// (real serializeIndexableEntry, real KVMetadata encoder).
func verifIndexedValue(kind byte) []byte {
	var kvmd []byte
	switch kind {
	case 1:
		md := NewKVMetadata()
		md.AsDeleted(true)
		kvmd = md.Bytes()
	case 2:
		md := NewKVMetadata()
		md.ExpiresAt(time.Unix(1, 0))
		kvmd = md.Bytes()
	}
	e := &TxEntry{vLen: int(verifrt.U16("e.vLen")), vOff: verifrt.I64("e.vOff"), hVal: verifrt.Digest("e.hVal")}
	b := make([]byte, 64+len(kvmd))
	n := serializeIndexableEntry(b, nil, e, kvmd)
	return b[:n]
}

// VerifH_KeyReaderLiveKeysAndOffset: what a scan over a snapshot returns. The tree reader under
// the store's key reader is a stub serving n index entries in key order (symbolic tx ids,
// revision counts and kinds: live / logically deleted / expired; index values written by the real
// serializeIndexableEntry), honouring the tree-level offset and tx range it is given. The real
// Snapshot.NewKeyReader + storeKeyReader.Read / ReadBetween (real valueRefFrom, real
// IgnoreDeleted / IgnoreExpired filters) must return exactly the entries that pass the filters
// (and, for ReadBetween, whose tx lies in the range), in key order, after skipping `offset` of
// THOSE -- filtered-out keys never count against the offset -- and then ErrNoMoreEntries.
func VerifH_KeyReaderLiveKeysAndOffset() {
	n := verifrt.Param("n")
	between := verifrt.Param("between") == 1
	fsel := verifrt.Param("filters") // bit 0: IgnoreDeleted, bit 1: IgnoreExpired
	entries := make([]verifScanEntry, n)
	for i := range entries {
		kind := verifrt.Byte("kind")
		verifrt.Assume(kind <= 2)
		var val []byte
		switch kind { // fork: the metadata block has a different length per kind
		case 0:
			val = verifIndexedValue(0)
		case 1:
			val = verifIndexedValue(1)
		default:
			val = verifIndexedValue(2)
		}
		entries[i] = verifScanEntry{key: []byte{byte(i + 1)}, val: val, tx: verifrt.U64("tx"), hc: verifrt.U64("hc"), kind: kind}
		verifrt.Assume(entries[i].tx >= 1 && entries[i].tx <= 9)
	}
	var treeOffset, treeSkipped uint64
	pos := 0
	verifrt.Stub("(*embedded/tbtree.Snapshot).NewReader", func(s *tbtree.Snapshot, spec tbtree.ReaderSpec) (*tbtree.Reader, error) {
		treeOffset = spec.Offset
		return &tbtree.Reader{}, nil
	})
	next := func(lo, hi uint64) ([]byte, []byte, uint64, uint64, error) {
		for pos < n {
			e := entries[pos]
			pos++
			if e.tx < lo || e.tx > hi {
				continue
			}
			if treeSkipped < treeOffset {
				treeSkipped++
				continue
			}
			return e.key, e.val, e.tx, e.hc, nil
		}
		return nil, nil, 0, 0, tbtree.ErrNoMoreEntries
	}
	verifrt.Stub("(*embedded/tbtree.Reader).Read", func(r *tbtree.Reader) ([]byte, []byte, uint64, uint64, error) {
		return next(0, ^uint64(0))
	})
	verifrt.Stub("(*embedded/tbtree.Reader).ReadBetween", func(r *tbtree.Reader, lo, hi uint64) ([]byte, []byte, uint64, uint64, error) {
		return next(lo, hi)
	})
	var filters []FilterFn
	if fsel&1 != 0 {
		filters = append(filters, IgnoreDeleted)
	}
	if fsel&2 != 0 {
		filters = append(filters, IgnoreExpired)
	}
	offset := verifrt.U64("offset")
	verifrt.Assume(offset <= uint64(n)+1)
	lo, hi := uint64(0), ^uint64(0)
	if between {
		lo, hi = verifrt.U64("lo"), verifrt.U64("hi")
		verifrt.Assume(lo <= hi && hi <= 10)
	}
	snap := &Snapshot{st: &ImmuStore{}, ts: verifNow()}
	kr, err := snap.NewKeyReader(KeyReaderSpec{Filters: filters, Offset: offset})
	verifrt.Assert(err == nil, "key reader created")

	// expected: entries passing range and filters, minus the first `offset` of them
	skipped := uint64(0)
	for i := 0; i < n; i++ {
		e := entries[i]
		if e.tx < lo || e.tx > hi {
			continue
		}
		if (e.kind == 1 && fsel&1 != 0) || (e.kind == 2 && fsel&2 != 0) {
			continue
		}
		if skipped < offset {
			skipped++
			continue
		}
		var key []byte
		var ref ValueRef
		if between {
			key, ref, err = kr.ReadBetween(context.Background(), lo, hi)
		} else {
			key, ref, err = kr.Read(context.Background())
		}
		verifrt.Assert(err == nil, "the next matching live key is returned")
		verifrt.Assert(bytes.Equal(key, e.key), "keys come in key order, none skipped, none extra")
		verifrt.Assert(ref.Tx() == e.tx && ref.HC() == e.hc, "tx id and revision count of the entry")
		verifrt.Reach("entry returned")
	}
	if between {
		_, _, err = kr.ReadBetween(context.Background(), lo, hi)
	} else {
		_, _, err = kr.Read(context.Background())
	}
	verifrt.Assert(err == ErrNoMoreEntries, "nothing beyond the matching live keys")
	verifrt.Reach("exhausted")
}

// VerifH_HistoryRevisions: ImmuStore.History / Snapshot.History number the versions of a key.
// The index (stub of indexer.History / tbtree.Snapshot.History) holds hCount versions of the
// key; a page (offset, limit, asc/desc) of them is served. Every returned reference carries the
// tx id of its version and the revision number of THAT version in commit order (1 = oldest),
// whatever the page.
func VerifH_HistoryRevisions() {
	hCount := verifrt.Param("hcount")
	desc := verifrt.Param("desc") == 1
	viaSnapshot := verifrt.Param("snapshot") == 1
	txs := make([]uint64, hCount) // txs[r-1] = tx id of revision r
	vals := make([][]byte, hCount)
	for i := range txs {
		txs[i] = verifrt.U64("tx")
		vals[i] = verifIndexedValue(0)
		if i > 0 {
			verifrt.Assume(txs[i] > txs[i-1])
		}
	}
	page := func(offset uint64, descOrder bool, limit int) ([]tbtree.TimedValue, uint64, error) {
		if offset >= uint64(hCount) {
			return nil, 0, tbtree.ErrNoMoreEntries
		}
		var out []tbtree.TimedValue
		for k := 0; k < hCount && len(out) < limit; k++ {
			if uint64(k) < offset {
				continue
			}
			r := k // index in commit order
			if descOrder {
				r = hCount - 1 - k
			}
			out = append(out, tbtree.TimedValue{Value: vals[r], Ts: txs[r]})
		}
		return out, uint64(hCount), nil
	}
	verifrt.Stub("(*embedded/store.indexer).History", func(idx *indexer, key []byte, offset uint64, descOrder bool, limit int) ([]tbtree.TimedValue, uint64, error) {
		return page(offset, descOrder, limit)
	})
	verifrt.Stub("(*embedded/tbtree.Snapshot).History", func(s *tbtree.Snapshot, key []byte, offset uint64, descOrder bool, limit int) ([]tbtree.TimedValue, uint64, error) {
		return page(offset, descOrder, limit)
	})
	verifrt.Stub("(*embedded/store.ImmuStore).getIndexerFor", func(s *ImmuStore, key []byte) (*indexer, error) { return &indexer{}, nil })
	offset := verifrt.U64("offset")
	limit := verifrt.Int("limit")
	verifrt.Assume(offset <= uint64(hCount) && limit >= 1 && limit <= hCount+1)
	st := &ImmuStore{}
	var refs []ValueRef
	var hc uint64
	var err error
	if viaSnapshot {
		snap := &Snapshot{st: st, ts: verifNow()}
		refs, hc, err = snap.History([]byte{1}, offset, desc, limit)
	} else {
		refs, hc, err = st.History([]byte{1}, offset, desc, limit)
	}
	if offset >= uint64(hCount) {
		verifrt.Assert(err != nil, "a page beyond the history is refused")
		verifrt.Reach("beyond")
		return
	}
	verifrt.Assert(err == nil && hc == uint64(hCount), "history served with the number of versions")
	verifrt.Reach("page served")
	for i := 0; i < hCount; i++ {
		if i < len(refs) {
			k := int(offset) + i
			r := k
			if desc {
				r = hCount - 1 - k
			}
			for q := 0; q < hCount; q++ { // r is symbolic through offset: case-split
				if q == r {
					verifrt.Assert(refs[i].Tx() == txs[q], "tx id of the version")
					verifrt.Assert(refs[i].HC() == uint64(q+1), "revision number of the version in commit order")
				}
			}
		}
	}
}

// VerifH_StoreGetFilters: point lookups on the store. The index (stub of indexer.Get /
// GetWithPrefix / GetBetween) holds for the key a version of symbolic tx id, revision count and
// kind: live, logically deleted, expired long ago, or expiring far in the future (index value
// written by the real serializeIndexableEntry). The real ImmuStore.Get / GetWithPrefix return the
// version (its own tx id, revision, metadata, value location) exactly when it is live or not yet
// expired, ErrKeyNotFound for a logical delete and ErrExpiredEntry for an expired one;
// GetWithFilters without filters and GetBetween return the version whatever its kind.
func VerifH_StoreGetFilters() {
	kind := verifrt.Byte("kind")
	verifrt.Assume(kind <= 3)
	var md *KVMetadata
	switch kind {
	case 1:
		md = NewKVMetadata()
		md.AsDeleted(true)
	case 2:
		md = NewKVMetadata()
		md.ExpiresAt(time.Unix(0, 0)) // before any "now"
	case 3:
		md = NewKVMetadata()
		md.ExpiresAt(time.Unix(1<<41, 0)) // after any "now" the executor or the sandbox clock gives
		if verifrt.Bool("alsoNonIndexable") {
			md.AsNonIndexable(true)
		}
	}
	var kvmd []byte
	if md != nil {
		kvmd = md.Bytes()
	}
	e := &TxEntry{vLen: int(verifrt.U16("e.vLen")), vOff: verifrt.I64("e.vOff"), hVal: verifrt.Digest("e.hVal")}
	b := make([]byte, 64+len(kvmd))
	val := b[:serializeIndexableEntry(b, nil, e, kvmd)]
	tx, hc := verifrt.U64("tx"), verifrt.U64("hc")
	verifrt.Assume(tx >= 1)
	verifrt.Stub("(*embedded/store.ImmuStore).getIndexerFor", func(s *ImmuStore, key []byte) (*indexer, error) { return &indexer{}, nil })
	verifrt.Stub("(*embedded/store.indexer).Get", func(idx *indexer, key []byte) ([]byte, uint64, uint64, error) { return val, tx, hc, nil })
	verifrt.Stub("(*embedded/store.indexer).GetBetween", func(idx *indexer, key []byte, lo, hi uint64) ([]byte, uint64, uint64, error) {
		return val, tx, hc, nil
	})
	verifrt.Stub("(*embedded/store.indexer).GetWithPrefix", func(idx *indexer, prefix, neq []byte) ([]byte, []byte, uint64, uint64, error) {
		return []byte{1, 2}, val, tx, hc, nil
	})
	st := &ImmuStore{}
	same := func(ref ValueRef) {
		verifrt.Assert(ref.Tx() == tx && ref.HC() == hc && ref.Len() == uint32(e.vLen) && ref.VOff() == e.vOff && ref.HVal() == e.hVal, "the version's own tx id, revision and value location")
		verifrt.Assert(bytes.Equal(verifKVMDBytes(ref.KVMetadata()), kvmd), "the version's own metadata")
	}
	var ref ValueRef
	var err error
	which := verifrt.Param("which")
	switch which {
	case 0:
		ref, err = st.Get(context.Background(), []byte{1, 2})
	case 1:
		var key []byte
		key, ref, err = st.GetWithPrefix(context.Background(), []byte{1}, nil)
		if err == nil {
			verifrt.Assert(bytes.Equal(key, []byte{1, 2}), "the key found under the prefix")
		}
	case 2:
		ref, err = st.GetWithFilters(context.Background(), []byte{1, 2})
	default:
		ref, err = st.GetBetween(context.Background(), []byte{1, 2}, 1, 9)
	}
	if which >= 2 {
		verifrt.Assert(err == nil, "no filter: the version is returned whatever its kind")
		same(ref)
		verifrt.Reach("unfiltered")
		return
	}
	switch kind {
	case 1:
		verifrt.Assert(err == ErrKeyNotFound, "a logical delete reads as not found")
		verifrt.Reach("deleted")
	case 2:
		verifrt.Assert(err == ErrExpiredEntry, "an expired entry reads as expired")
		verifrt.Reach("expired")
	default:
		verifrt.Assert(err == nil, "a live (or not yet expired) version is returned")
		same(ref)
		verifrt.Reach("live")
	}
}
