//go:build verif

package store

import (
	"bytes"

	"github.com/codenotary/immudb/embedded/verifrt"
)

// VerifH_TxMetadataTotal: TxMetadata.ReadFrom is total on every buffer of length <= L.
func VerifH_TxMetadataTotal() {
	b := verifrt.BytesUpTo("b", verifrt.Param("L"))
	md := NewTxMetadata()
	err := md.ReadFrom(b)
	if err == nil {
		verifrt.Reach("decoded")
	} else {
		verifrt.Reach("rejected")
	}
}

// VerifH_TxMetadataRoundTrip: ReadFrom(Bytes(md)) == md.
func VerifH_TxMetadataRoundTrip() {
	md := NewTxMetadata()
	if verifrt.Bool("hasTrunc") {
		md.WithTruncatedTxID(verifrt.U64("trunc"))
	}
	n := verifrt.Param("extra")
	if n > 0 {
		err := md.WithExtra(verifrt.Bytes("extra", n))
		verifrt.Assume(err == nil)
	}
	enc := md.Bytes()
	md2 := NewTxMetadata()
	err := md2.ReadFrom(enc)
	verifrt.Assert(err == nil, "decodes")
	verifrt.Reach("decoded")
	verifrt.Assert(md.Equal(md2), "equal")
	verifrt.Assert(bytes.Equal(md2.Bytes(), enc), "re-encodes")
}
