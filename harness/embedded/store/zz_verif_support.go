//go:build verif

package store

import (
	"io"
	"time"
)

// verifMemApp is an in-memory appendable.Appendable used to drive store code without files.
// It keeps a volatile image (b) and records the operations applied to it.
type verifMemApp struct {
	b      []byte
	off    int64
	closed bool
	ops    []string
}

func (a *verifMemApp) Metadata() []byte { return nil }
func (a *verifMemApp) Size() (int64, error) {
	return int64(len(a.b)), nil
}
func (a *verifMemApp) Offset() int64 { return a.off }
func (a *verifMemApp) SetOffset(off int64) error {
	if off > int64(len(a.b)) {
		return io.EOF
	}
	a.off = off
	a.b = a.b[:off]
	a.ops = append(a.ops, "setoffset")
	return nil
}
func (a *verifMemApp) DiscardUpto(off int64) error { a.ops = append(a.ops, "discard"); return nil }
func (a *verifMemApp) Append(bs []byte) (off int64, n int, err error) {
	off = a.off
	a.b = append(a.b[:a.off], bs...)
	a.off += int64(len(bs))
	a.ops = append(a.ops, "append")
	return off, len(bs), nil
}
func (a *verifMemApp) Flush() error                { a.ops = append(a.ops, "flush"); return nil }
func (a *verifMemApp) Sync() error                 { a.ops = append(a.ops, "sync"); return nil }
func (a *verifMemApp) SwitchToReadOnlyMode() error { return nil }
func (a *verifMemApp) ReadAt(bs []byte, off int64) (int, error) {
	if off < 0 || off >= int64(len(a.b)) {
		return 0, io.EOF
	}
	n := copy(bs, a.b[off:])
	if n < len(bs) {
		return n, io.EOF
	}
	return n, nil
}
func (a *verifMemApp) Close() error               { a.closed = true; return nil }
func (a *verifMemApp) Copy(dstPath string) error  { return nil }
func (a *verifMemApp) CompressionFormat() int     { return 0 }
func (a *verifMemApp) CompressionLevel() int      { return 0 }

func verifEOF() error { return io.EOF }

// verifLogger is a logger.Logger that drops everything (formatting is never the subject).
type verifLogger struct{}

func (verifLogger) Errorf(string, ...interface{})   {}
func (verifLogger) Warningf(string, ...interface{}) {}
func (verifLogger) Infof(string, ...interface{})    {}
func (verifLogger) Debugf(string, ...interface{})   {}
func (verifLogger) Close() error                    { return nil }

// VerifNewWriteOnlyTx builds a write-only store transaction over a minimal store (no indexers):
// used by harnesses of other packages (embedded/sql) that need a live OngoingTx.
func VerifNewWriteOnlyTx() *OngoingTx {
	st := &ImmuStore{maxKeyLen: 1024, maxValueLen: 4096, maxTxEntries: 1024, logger: verifLogger{}}
	return &OngoingTx{
		st:               st,
		mode:             WriteOnlyTx,
		entriesByKey:     make(map[[32]byte]int),
		transientEntries: make(map[int]*EntrySpec),
	}
}

// VerifPendingEntries exposes the pending write set of a transaction.
func VerifPendingEntries(tx *OngoingTx) []*EntrySpec { return tx.entries }


// verifVersionRef builds the value reference of an index version: kind 0 = live, 1 = logically
// deleted, 2 = expired (relative to verifNow), and applies the read filters as the real snapshot
// does: the first filter error is returned.
func verifVersionRef(tx uint64, kind byte, filters []FilterFn) (ValueRef, error) {
	if tx == 0 {
		return nil, ErrKeyNotFound
	}
	var md *KVMetadata
	switch kind {
	case 1:
		md = NewKVMetadata()
		md.AsDeleted(true)
	case 2:
		md = NewKVMetadata()
		md.ExpiresAt(time.Unix(1, 0))
	}
	ref := &valueRef{tx: tx, kvmd: md}
	for _, f := range filters {
		if f == nil {
			continue
		}
		if err := f(ref, verifNow()); err != nil {
			return nil, err
		}
	}
	return ref, nil
}

func verifNow() time.Time { return time.Unix(1000, 0) }

// VerifValueRef builds a plain value reference (tx id, revision count) for harnesses of other packages.
func VerifValueRef(tx, hc uint64) ValueRef { return &valueRef{tx: tx, hc: hc} }
