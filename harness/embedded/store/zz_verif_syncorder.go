//go:build verif

package store

import (
	"errors"
	"io"

	"github.com/codenotary/immudb/embedded/appendable"
	"github.com/codenotary/immudb/embedded/verifrt"
	"github.com/codenotary/immudb/embedded/watchers"
)

// verifCrashLog: in-memory appendable with a volatile image (b) and a durable image (disk);
// all logs of a run share a clock: when it expires every further operation fails without effect.
// Every operation is appended to the shared trace.
type verifCrashLog struct {
	name  string
	b     []byte
	off   int64
	disk  []byte
	clock *verifCrashClock
}

type verifCrashClock struct {
	ops     int
	crashAt int
	trace   []string
}

var verifErrCrashed = errors.New("crashed")

func (c *verifCrashClock) tick(ev string) bool {
	if c.crashAt > 0 && c.ops >= c.crashAt {
		return false
	}
	c.ops++
	c.trace = append(c.trace, ev)
	return true
}

func (a *verifCrashLog) Metadata() []byte     { return nil }
func (a *verifCrashLog) Size() (int64, error) { return int64(len(a.b)), nil }
func (a *verifCrashLog) Offset() int64        { return a.off }
func (a *verifCrashLog) SetOffset(off int64) error {
	if !a.clock.tick(a.name + ".setoffset") {
		return verifErrCrashed
	}
	if off > int64(len(a.b)) {
		return io.EOF
	}
	a.off = off
	a.b = a.b[:off]
	return nil
}
func (a *verifCrashLog) DiscardUpto(off int64) error { return nil }
func (a *verifCrashLog) Append(bs []byte) (int64, int, error) {
	if !a.clock.tick(a.name + ".append") {
		return 0, 0, verifErrCrashed
	}
	off := a.off
	a.b = append(a.b[:a.off], bs...)
	a.off += int64(len(bs))
	return off, len(bs), nil
}
func (a *verifCrashLog) Flush() error {
	if !a.clock.tick(a.name + ".flush") {
		return verifErrCrashed
	}
	return nil
}
func (a *verifCrashLog) Sync() error {
	if !a.clock.tick(a.name + ".sync") {
		return verifErrCrashed
	}
	nd := append([]byte(nil), a.b...)
	if len(a.disk) > len(nd) {
		nd = append(nd, a.disk[len(nd):]...)
	}
	a.disk = nd
	return nil
}
func (a *verifCrashLog) SwitchToReadOnlyMode() error { return nil }
func (a *verifCrashLog) ReadAt(bs []byte, off int64) (int, error) {
	if off < 0 || off >= int64(len(a.b)) {
		return 0, io.EOF
	}
	n := copy(bs, a.b[off:])
	if n < len(bs) {
		return n, io.EOF
	}
	return n, nil
}
func (a *verifCrashLog) Close() error              { return nil }
func (a *verifCrashLog) Copy(dstPath string) error { return nil }
func (a *verifCrashLog) CompressionFormat() int    { return 0 }
func (a *verifCrashLog) CompressionLevel() int     { return 0 }

func verifIndexOf(trace []string, ev string) int {
	for i, e := range trace {
		if e == ev {
			return i
		}
	}
	return -1
}

// VerifH_SyncWriteOrdering: the durability ordering of the commit step. Pre-state: c committed
// transactions, k precommitted ones whose tx-log records (symbolic sizes) and values are written
// but NOT yet durable; ImmuStore.sync() runs and the process dies at operation crashAt (over all
// appendable operations of the value log, tx log and commit log). In every crash image (commit
// log with none/all of its unsynced bytes, or a torn last entry) every complete commit-log entry
// beyond the old frontier points to tx-log bytes that are durable, and the value log was synced
// before it. Without a crash: everything allowed is durable in all three logs and the commit
// watchers advance only after the commit log was fsynced.
func VerifH_SyncWriteOrdering() {
	k, crashAt, cutMode := verifrt.Param("k"), verifrt.Param("crashAt"), verifrt.Param("cutMode")
	entrySize := cLogEntrySizeV2
	clock := &verifCrashClock{crashAt: crashAt}
	nv := verifrt.Param("nvlogs") // value logs (values are spread round-robin)
	vLog := &verifCrashLog{name: "vlog", clock: clock}
	vLogs := map[byte]*refVLog{0: {vLog: vLog}}
	allV := []*verifCrashLog{vLog}
	for v := 1; v < nv; v++ {
		l := &verifCrashLog{name: "vlog" + string(rune('1'+v)), clock: clock}
		vLogs[byte(v)] = &refVLog{vLog: l}
		allV = append(allV, l)
	}
	txLog := &verifCrashLog{name: "txlog", clock: clock}
	cLog := &verifCrashLog{name: "clog", clock: clock}

	c := verifrt.U64("committed")
	verifrt.Assume(c <= 1)
	// committed prefix: durable everywhere
	var txBytes, cBytes []byte
	off := int64(0)
	if c == 1 {
		sz := 3
		txBytes = append(txBytes, verifrt.Bytes("tx0", sz)...)
		cBytes = append(cBytes, verifrt.Bytes("centry0", entrySize)...)
		off = int64(sz)
	}
	txLog.b, txLog.disk, txLog.off = append([]byte(nil), txBytes...), append([]byte(nil), txBytes...), int64(len(txBytes))
	cLog.b, cLog.disk, cLog.off = append([]byte(nil), cBytes...), append([]byte(nil), cBytes...), int64(len(cBytes))
	durableTxLen := int64(len(txBytes))
	// precommitted, not yet durable
	buf := newPrecommitBuffer(4)
	var lastAlh [32]byte
	for i := 0; i < k; i++ {
		sz := int(verifrt.Byte("size"))
		verifrt.Assume(sz >= 1 && sz <= 3)
		rec := verifrt.Bytes("rec", 3)[:sz]
		txLog.b = append(txLog.b, rec...)
		txLog.off = int64(len(txLog.b))
		lastAlh = verifrt.Digest("alh")
		verifrt.Assume(buf.put(c+uint64(i)+1, lastAlh, off, sz) == nil)
		off += int64(sz)
		tv := allV[i%nv]
		tv.b = append(tv.b, verifrt.Byte("val"))
		tv.off = int64(len(tv.b))
	}
	var done []string
	verifrt.Stub("(*embedded/watchers.WatchersHub).DoneUpto", func(w *watchers.WatchersHub, t uint64) error {
		clock.trace = append(clock.trace, "doneUpto")
		done = append(done, "x")
		return nil
	})
	st := &ImmuStore{
		maxIOConcurrency: nv, vLogs: vLogs,
		txLog: txLog, cLog: cLog, cLogEntrySize: entrySize, cLogBuf: buf,
		committedTxID: c, inmemPrecommittedTxID: c + uint64(k), inmemPrecommittedAlh: lastAlh,
	}
	if nv > 1 {
		// the lock/wait machinery that hands value logs out to concurrent committers is not
		// part of this obligation: a value log is fetched by id
		verifrt.Stub("(*embedded/store.ImmuStore).fetchVLog", func(s *ImmuStore, vLogID byte) (appendable.Appendable, error) {
			return s.vLogs[vLogID-1].vLog, nil
		})
		verifrt.Stub("(*embedded/store.ImmuStore).releaseVLog", func(s *ImmuStore, vLogID byte) error { return nil })
	}
	err := st.sync()
	crashed := clock.crashAt > 0 && clock.ops >= clock.crashAt
	if !crashed {
		if crashAt > 0 {
			verifrt.Skip() // the call finished before the crash point
		}
		verifrt.Assert(err == nil, "sync succeeds without faults")
		verifrt.Reach("completed")
		verifrt.Assert(st.committedTxID == c+uint64(k), "everything precommitted is committed")
		verifrt.Assert(int64(len(txLog.disk)) == int64(len(txLog.b)) && len(cLog.disk) == len(cLog.b), "tx log and commit log are durable when sync returns")
		for _, l := range allV {
			verifrt.Assert(len(l.disk) == len(l.b), "every value log is durable when sync returns")
		}
		verifrt.Assert(len(cLog.b) == int(c+uint64(k))*entrySize, "one commit entry per committed transaction")
		if k > 0 {
			iTx, iV, iC, iCS := verifIndexOf(clock.trace, "txlog.sync"), verifIndexOf(clock.trace, "vlog.sync"), verifIndexOf(clock.trace, "clog.append"), verifIndexOf(clock.trace, "clog.sync")
			verifrt.Assert(iTx >= 0 && iV >= 0 && iC > iTx && iC > iV, "value log and tx log are fsynced before the first commit-log append")
			// the last watcher notification (commit hub) comes after the commit-log fsync
			last := -1
			for i, e := range clock.trace {
				if e == "doneUpto" {
					last = i
				}
			}
			verifrt.Assert(iCS >= 0 && last > iCS, "commit is signalled only after the commit log is fsynced")
		}
		return
	}
	verifrt.Reach("crashed")
	// commit-log crash image
	cut := len(cLog.disk)
	if cutMode >= 1 {
		cut = len(cLog.b)
	}
	if cutMode == 2 {
		if cut < entrySize || cut <= len(cBytes) {
			verifrt.Skip()
		}
		cut -= 7 // torn last entry
	}
	img := append([]byte(nil), cLog.b[:min(cut, len(cLog.b))]...)
	if len(cLog.disk) > len(img) {
		img = append(img, cLog.disk[len(img):]...)
	}
	_ = durableTxLen
	n := len(img) / entrySize
	for i := int(c); i < n; i++ {
		e := img[i*entrySize : (i+1)*entrySize]
		o := int64(uint64(e[0])<<56 | uint64(e[1])<<48 | uint64(e[2])<<40 | uint64(e[3])<<32 | uint64(e[4])<<24 | uint64(e[5])<<16 | uint64(e[6])<<8 | uint64(e[7]))
		sz := int64(uint32(e[8])<<24 | uint32(e[9])<<16 | uint32(e[10])<<8 | uint32(e[11]))
		verifrt.Assert(o+sz <= int64(len(txLog.disk)), "a complete commit-log entry points to durable tx-log bytes")
		for _, l := range allV {
			verifrt.Assert(len(l.disk) == len(l.b), "values are durable before any new commit-log entry exists")
		}
	}
}
