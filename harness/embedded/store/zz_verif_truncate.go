//go:build verif

package store

import (
	"github.com/codenotary/immudb/embedded/appendable"
	"github.com/codenotary/immudb/embedded/verifrt"
)

type verifDiscardRec struct {
	verifMemApp
	id       byte
	discards []int64
}

func (a *verifDiscardRec) DiscardUpto(off int64) error {
	a.discards = append(a.discards, off)
	return nil
}

// VerifH_TruncateTombstones: value-log truncation up to transaction `cut` never discards, in any
// value log, beyond the first value offset of any transaction with id >= cut.
// History: n transactions whose values landed in value log v_i (1..C) at first-value offset o_i,
// in ANY order between transactions (concurrent committers); a transaction whose first entry has an
// empty value (offset 0, length 0) still has a non-empty value at o_i.
func VerifH_TruncateTombstones() {
	n := verifrt.Param("n")
	C := verifrt.Param("C")
	vlog := make([]byte, n+1)
	first := make([]int64, n+1)      // offset of the transaction's first NON-EMPTY value
	firstEmpty := make([]bool, n+1) // the transaction's first entry has an empty value (offset 0)
	for i := 1; i <= n; i++ {
		firstEmpty[i] = verifrt.Bool("firstEmpty")
		vlog[i] = verifrt.Byte("vlog")
		verifrt.Assume(vlog[i] >= 1 && int(vlog[i]) <= C)
		first[i] = verifrt.I64("first")
		verifrt.Assume(first[i] >= 0 && first[i] <= 100)
	}
	cut := verifrt.U64("cut")
	verifrt.Assume(cut >= 1 && cut <= uint64(n))

	vlogs := make([]*verifDiscardRec, C+1)
	for v := 1; v <= C; v++ {
		vlogs[v] = &verifDiscardRec{id: byte(v)}
	}
	verifrt.Stub("(*embedded/store.ImmuStore).readTxOffsetAt", func(s *ImmuStore, txID uint64, allowPrecommitted bool, index int) (*TxEntry, error) {
		if txID < 1 || txID > uint64(n) {
			return nil, ErrTxNotFound
		}
		for i := 1; i <= n; i++ {
			if uint64(i) == txID {
				if firstEmpty[i] {
					return &TxEntry{vLen: 0, vOff: encodeOffset(0, vlog[i])}, nil
				}
				return &TxEntry{vLen: 1, vOff: encodeOffset(first[i], vlog[i])}, nil
			}
		}
		return nil, ErrTxNotFound
	})
	verifrt.Stub("(*embedded/store.ImmuStore).fetchVLog", func(s *ImmuStore, vLogID byte) (appendable.Appendable, error) {
		for v := 1; v <= C; v++ {
			if byte(v) == vLogID {
				return vlogs[v], nil
			}
		}
		return nil, ErrUnexpectedError
	})
	verifrt.Stub("(*embedded/store.ImmuStore).releaseVLog", func(s *ImmuStore, vLogID byte) error { return nil })

	st := &ImmuStore{logger: verifLogger{}, maxIOConcurrency: C, committedTxID: uint64(n)}
	err := st.TruncateUptoTx(cut)
	verifrt.Assert(err == nil, "truncation succeeds")
	verifrt.Reach("truncated")
	for v := 1; v <= C; v++ {
		verifrt.Assert(len(vlogs[v].discards) <= 1, "at most one discard per value log")
		for _, off := range vlogs[v].discards {
			for j := 1; j <= n; j++ {
				if uint64(j) >= cut && vlog[j] == byte(v) {
					verifrt.Assert(off <= first[j], "discard offset does not pass the first value of a kept transaction")
				}
			}
		}
	}
	// embedded values: never discards
	st2 := &ImmuStore{logger: verifLogger{}, maxIOConcurrency: C, committedTxID: uint64(n), embeddedValues: true}
	before := 0
	for v := 1; v <= C; v++ {
		before += len(vlogs[v].discards)
	}
	verifrt.Assert(st2.TruncateUptoTx(cut) == nil, "embedded values: no-op")
	after := 0
	for v := 1; v <= C; v++ {
		after += len(vlogs[v].discards)
	}
	verifrt.Assert(before == after, "embedded values: nothing discarded")
}
