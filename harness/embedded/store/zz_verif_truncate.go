//go:build verif

package store

import (
	"github.com/codenotary/immudb/embedded/appendable"
	"github.com/codenotary/immudb/embedded/verifrt"
)

type verifDiscardRec struct {
	verifMemApp
	id       byte
	discards []int64
}

func (a *verifDiscardRec) DiscardUpto(off int64) error {
	a.discards = append(a.discards, off)
	return nil
}

// VerifH_TruncateTombstones: value-log truncation up to transaction `cut` never discards, in any
// value log, beyond the first value offset of any transaction with id >= cut.
// History: n transactions whose values landed in value log v_i (1..C) at first-value offset o_i,
// in ANY order between transactions (concurrent committers); a transaction whose first entry has an
// empty value (offset 0, length 0) still has a non-empty value at o_i.
func VerifH_TruncateTombstones() {
	n := verifrt.Param("n")
	C := verifrt.Param("C")
	vlog := make([]byte, n+1)
	first := make([]int64, n+1)      // offset of the transaction's first NON-EMPTY value
	firstEmpty := make([]bool, n+1) // the transaction's first entry has an empty value (offset 0)
	for i := 1; i <= n; i++ {
		firstEmpty[i] = verifrt.Bool("firstEmpty")
		vlog[i] = verifrt.Byte("vlog")
		verifrt.Assume(vlog[i] >= 1 && int(vlog[i]) <= C)
		first[i] = verifrt.I64("first")
		verifrt.Assume(first[i] >= 0 && first[i] <= 100)
	}
	cut := verifrt.U64("cut")
	verifrt.Assume(cut >= 1 && cut <= uint64(n))

	vlogs := make([]*verifDiscardRec, C+1)
	for v := 1; v <= C; v++ {
		vlogs[v] = &verifDiscardRec{id: byte(v)}
	}
	verifrt.Stub("(*embedded/store.ImmuStore).readTxOffsetAt", func(s *ImmuStore, txID uint64, allowPrecommitted bool, index int) (*TxEntry, error) {
		if txID < 1 || txID > uint64(n) {
			return nil, ErrTxNotFound
		}
		for i := 1; i <= n; i++ {
			if uint64(i) == txID {
				if firstEmpty[i] {
					return &TxEntry{vLen: 0, vOff: encodeOffset(0, vlog[i])}, nil
				}
				return &TxEntry{vLen: 1, vOff: encodeOffset(first[i], vlog[i])}, nil
			}
		}
		return nil, ErrTxNotFound
	})
	verifrt.Stub("(*embedded/store.ImmuStore).fetchVLog", func(s *ImmuStore, vLogID byte) (appendable.Appendable, error) {
		for v := 1; v <= C; v++ {
			if byte(v) == vLogID {
				return vlogs[v], nil
			}
		}
		return nil, ErrUnexpectedError
	})
	verifrt.Stub("(*embedded/store.ImmuStore).releaseVLog", func(s *ImmuStore, vLogID byte) error { return nil })

	st := &ImmuStore{logger: verifLogger{}, maxIOConcurrency: C, committedTxID: uint64(n)}
	err := st.TruncateUptoTx(cut)
	verifrt.Assert(err == nil, "truncation succeeds")
	verifrt.Reach("truncated")
	for v := 1; v <= C; v++ {
		verifrt.Assert(len(vlogs[v].discards) <= 1, "at most one discard per value log")
		for _, off := range vlogs[v].discards {
			for j := 1; j <= n; j++ {
				if uint64(j) >= cut && vlog[j] == byte(v) {
					verifrt.Assert(off <= first[j], "discard offset does not pass the first value of a kept transaction")
				}
			}
		}
	}
	// embedded values: never discards
	st2 := &ImmuStore{logger: verifLogger{}, maxIOConcurrency: C, committedTxID: uint64(n), embeddedValues: true}
	before := 0
	for v := 1; v <= C; v++ {
		before += len(vlogs[v].discards)
	}
	verifrt.Assert(st2.TruncateUptoTx(cut) == nil, "embedded values: no-op")
	after := 0
	for v := 1; v <= C; v++ {
		after += len(vlogs[v].discards)
	}
	verifrt.Assert(before == after, "embedded values: nothing discarded")
}

// verifTxRecordV0 serializes a version-0 transaction record as performPrecommit lays it out
// (the real txDataReader parses it back in the harness below; a wrong layout fails on the
// unchanged tree).
func verifTxRecordV0(id uint64, entries []*TxEntry) []byte {
	var b []byte
	u64 := func(v uint64) {
		b = append(b, byte(v>>56), byte(v>>48), byte(v>>40), byte(v>>32), byte(v>>24), byte(v>>16), byte(v>>8), byte(v))
	}
	u64(id)
	u64(0)                         // ts
	u64(id - 1)                    // blTxID
	b = append(b, make([]byte, 64)...) // blRoot, prevAlh
	b = append(b, 0, 0)            // version 0
	b = append(b, byte(len(entries)>>8), byte(len(entries)))
	for _, e := range entries {
		b = append(b, 0, 0) // no entry metadata
		b = append(b, byte(e.kLen>>8), byte(e.kLen))
		b = append(b, e.k[:e.kLen]...)
		b = append(b, byte(e.vLen>>24), byte(e.vLen>>16), byte(e.vLen>>8), byte(e.vLen))
		u64(uint64(e.vOff))
		b = append(b, e.hVal[:]...)
	}
	b = append(b, make([]byte, 32)...) // alh (not checked by the offset reader)
	return b
}

// VerifH_TruncateMultiEntry: the same tombstone safety with transactions of two entries each,
// read through the real readTxOffsetAt / txDataReader from serialized records: both values of a
// transaction sit in the same value log at ascending symbolic offsets (the first possibly empty);
// truncation up to `cut` never discards, in any value log, beyond ANY value of a transaction
// with id >= cut.
func VerifH_TruncateMultiEntry() {
	n, C := verifrt.Param("n"), verifrt.Param("C")
	vlog := make([]byte, n+1)
	o1, o2 := make([]int64, n+1), make([]int64, n+1)
	l1 := make([]int, n+1)
	recs := make([][]byte, n+1)
	for i := 1; i <= n; i++ {
		vlog[i] = verifrt.Byte("vlog")
		verifrt.Assume(vlog[i] >= 1 && int(vlog[i]) <= C)
		o1[i], o2[i] = verifrt.I64("o1"), verifrt.I64("o2")
		verifrt.Assume(o1[i] >= 0 && o1[i] < o2[i] && o2[i] <= 100)
		l1[i] = 1
		e1 := &TxEntry{k: []byte{1}, kLen: 1, vLen: 1, vOff: encodeOffset(o1[i], vlog[i])}
		if verifrt.Bool("firstEmpty") {
			l1[i] = 0
			e1.vLen, e1.vOff = 0, encodeOffset(0, vlog[i]) // as appendValuesIntoAnyVLog encodes an empty value
		}
		e2 := &TxEntry{k: []byte{2}, kLen: 1, vLen: 1, vOff: encodeOffset(o2[i], vlog[i])}
		recs[i] = verifTxRecordV0(uint64(i), []*TxEntry{e1, e2})
	}
	cut := verifrt.U64("cut")
	verifrt.Assume(cut >= 1 && cut <= uint64(n))
	vlogs := make([]*verifDiscardRec, C+1)
	for v := 1; v <= C; v++ {
		vlogs[v] = &verifDiscardRec{id: byte(v)}
	}
	verifrt.Stub("(*embedded/store.ImmuStore).appendableReaderForTx", func(s *ImmuStore, txID uint64, allowPrecommitted bool) (*appendable.Reader, error) {
		for i := 1; i <= n; i++ {
			if uint64(i) == txID {
				return appendable.NewReaderFrom(&verifMemApp{b: recs[i]}, 0, len(recs[i])), nil
			}
		}
		return nil, ErrTxNotFound
	})
	verifrt.Stub("(*embedded/store.ImmuStore).fetchVLog", func(s *ImmuStore, vLogID byte) (appendable.Appendable, error) {
		for v := 1; v <= C; v++ {
			if byte(v) == vLogID {
				return vlogs[v], nil
			}
		}
		return nil, ErrUnexpectedError
	})
	verifrt.Stub("(*embedded/store.ImmuStore).releaseVLog", func(s *ImmuStore, vLogID byte) error { return nil })
	st := &ImmuStore{logger: verifLogger{}, maxIOConcurrency: C, committedTxID: uint64(n), maxTxEntries: 8, maxKeyLen: 4}
	err := st.TruncateUptoTx(cut)
	verifrt.Assert(err == nil, "truncation succeeds")
	verifrt.Reach("truncated")
	for v := 1; v <= C; v++ {
		verifrt.Assert(len(vlogs[v].discards) <= 1, "at most one discard per value log")
		for _, off := range vlogs[v].discards {
			for j := 1; j <= n; j++ {
				if uint64(j) >= cut && vlog[j] == byte(v) {
					if l1[j] > 0 {
						verifrt.Assert(off <= o1[j], "discard offset does not pass the first value of a kept transaction")
					}
					verifrt.Assert(off <= o2[j], "discard offset does not pass the second value of a kept transaction")
				}
			}
		}
	}
}
