//go:build verif

package tbtree

import (
	"bytes"
	"io"

	"github.com/codenotary/immudb/embedded/verifrt"
)

type verifVersion struct {
	val byte
	ts  uint64
}

type verifKey struct {
	key      byte
	versions []verifVersion // oldest first
}

// verifModel is the reference: an ordered multi-version map.
type verifModel struct {
	keys []verifKey
	ts   uint64
}

func (m *verifModel) clone() *verifModel {
	c := &verifModel{ts: m.ts}
	for _, k := range m.keys {
		c.keys = append(c.keys, verifKey{key: k.key, versions: append([]verifVersion(nil), k.versions...)})
	}
	return c
}

func (m *verifModel) find(key byte) int {
	for i := range m.keys {
		if m.keys[i].key == key {
			return i
		}
	}
	return -1
}

func (m *verifModel) put(key, val byte, ts uint64) {
	if i := m.find(key); i >= 0 {
		m.keys[i].versions = append(m.keys[i].versions, verifVersion{val, ts})
	} else {
		m.keys = append(m.keys, verifKey{key: key, versions: []verifVersion{{val, ts}}})
	}
	if ts > m.ts {
		m.ts = ts
	}
}

func verifNewTree(maxNodeSize int) *TBtree {
	t := &TBtree{
		path: "verif", maxNodeSize: maxNodeSize, maxKeySize: 8, maxValueSize: 8,
		flushThld: 1 << 30, maxBufferedDataSize: 1 << 30, snapshots: map[uint64]*Snapshot{},
	}
	t.root = &leafNode{t: t, mut: true}
	return t
}

// verifWalk collects the keys of the subtree in order and checks the structural invariants.
func verifWalk(n node, out *[]byte) {
	switch x := n.(type) {
	case *leafNode:
		var maxTs uint64
		for _, lv := range x.values {
			verifrt.Assert(len(lv.key) == 1, "leaf key length")
			*out = append(*out, lv.key[0])
			if lv.timedValue().Ts > maxTs {
				maxTs = lv.timedValue().Ts
			}
		}
		verifrt.Assert(len(x.values) == 0 || x._ts >= maxTs, "leaf ts covers its newest value")
	case *innerNode:
		for i, c := range x.nodes {
			start := len(*out)
			verifWalk(c, out)
			if len(*out) > start {
				verifrt.Assert(bytes.Equal(c.minKey(), []byte{(*out)[start]}), "child separator is its minimum key")
			}
			verifrt.Assert(c.ts() <= x._ts, "inner ts covers its children")
			_ = i
		}
	default:
		verifrt.Assert(false, "unexpected node kind in memory")
	}
}

func verifCheckAgainst(root node, m *verifModel, label string, probe byte) {
	// in-order content = the model's key set, strictly ascending
	var keys []byte
	verifWalk(root, &keys)
	verifrt.Assert(len(keys) == len(m.keys), label+": number of keys")
	for i := 1; i < len(keys); i++ {
		verifrt.Assert(keys[i-1] < keys[i], label+": keys strictly ascending")
	}
	// point lookup of an arbitrary key (the same probe for every tree of the run)
	v, ts, hc, err := root.get([]byte{probe})
	i := m.find(probe)
	if i < 0 {
		verifrt.Assert(err != nil, label+": absent key not found")
		return
	}
	vs := m.keys[i].versions
	verifrt.Assert(err == nil, label+": present key found")
	verifrt.Assert(len(v) == 1 && v[0] == vs[len(vs)-1].val && ts == vs[len(vs)-1].ts, label+": lookup returns the latest version")
	verifrt.Assert(hc == uint64(len(vs)), label+": revision count")
}

// VerifH_TreeIsVersionedMap: `bulks` bulk inserts of `per` key/value pairs (symbolic 1-byte keys
// and values; auto or explicit symbolic timestamps) into an empty in-memory tree whose node size
// forces splits: structure, in-order content, point lookups and revision counts equal the
// reference multi-version map; a bulk with a stale timestamp is rejected without any change; and
// every insert is copy-on-write: the root pinned before the last bulk still answers as before.
func VerifH_TreeIsVersionedMap() {
	// shapes (bulks, per): 0:(1,1) 1:(1,2) 2:(2,1) 3:(3,1) 4:(2,2) 5:(1,3)
	shapes := [][2]int{{1, 1}, {1, 2}, {2, 1}, {3, 1}, {2, 2}, {1, 3}}
	sh := shapes[verifrt.Param("shape")]
	bulks, per := sh[0], sh[1]
	t := verifNewTree(verifrt.Param("nodeSize"))
	m := &verifModel{}
	// concrete preload (keys 10, 20, ...: one bulk each) so that the symbolic bulks start from a
	// tree that already went through splits; costs no paths
	for i := 0; i < verifrt.Param("preload"); i++ {
		k := byte(10 * (i + 1))
		verifrt.Assume(t.bulkInsert([]*KVT{{K: []byte{k}, V: []byte{1}}}) == nil)
		m.put(k, 1, m.ts+1)
	}
	// freeze: 0 = no snapshot is ever taken (nodes stay mutable and are updated in place);
	// 1 = one snapshot before the symbolic bulks; 2 = a snapshot before every bulk
	freeze := verifrt.Param("freeze")
	// first pin: the tree before any symbolic bulk (a snapshot taken long ago)
	pinned0, pinnedModel0 := t.root, m.clone()
	if freeze >= 1 {
		verifFreeze(pinned0)
	}
	// incts: the logical time is advanced without data (IncreaseTs, as the indexer does for
	// transactions without indexable entries) before the symbolic bulks: the root is replaced by
	// setTs, which must not share mutable state with the pinned tree
	if verifrt.Param("incts") == 1 {
		root, err := t.root.setTs(m.ts + 1)
		verifrt.Assert(err == nil, "logical time advanced")
		t.root = root
		m.ts++
		verifrt.Assert(t.root.ts() == m.ts, "root carries the new logical time")
	}
	var pinned node
	var pinnedModel *verifModel
	for b := 0; b < bulks; b++ {
		// pin the current root as a flushed/snapshotted (immutable) tree would be
		pinned, pinnedModel = t.root, m.clone()
		if freeze == 2 {
			verifFreeze(pinned)
		}
		kvts := make([]*KVT, per)
		next := m.clone()
		explicit := verifrt.Bool("explicitTs")
		for i := range kvts {
			k, v := verifrt.Byte("k"), verifrt.Byte("v")
			var ts uint64
			if explicit {
				ts = verifrt.U64("ts")
				verifrt.Assume(ts <= m.ts+3)
			}
			kvts[i] = &KVT{K: []byte{k}, V: []byte{v}, T: ts}
			eff := ts
			if ts == 0 {
				eff = m.ts + 1
			}
			// same key twice in one bulk with the same timestamp keeps the first value
			if j := next.find(k); j >= 0 && next.keys[j].versions[len(next.keys[j].versions)-1].ts == eff {
				continue
			}
			next.put(k, v, eff)
		}
		stale := false
		for _, kv := range kvts {
			if kv.T != 0 && kv.T <= m.ts {
				stale = true
			}
		}
		err := t.bulkInsert(kvts)
		if stale {
			verifrt.Assert(err != nil, "stale timestamp rejected")
			verifCheckAgainst(t.root, m, "after rejected bulk", verifrt.Byte("probe"))
			verifrt.Reach("rejected")
			return
		}
		if err != nil {
			// a later pair older than an earlier pair of the same key inside one bulk
			verifrt.Reach("rejected in leaf")
			return
		}
		m = next
	}
	probe := verifrt.Byte("probe")
	verifCheckAgainst(t.root, m, "after inserts", probe)
	verifrt.Reach("inserted")
	// copy-on-write: the pinned roots are unchanged by the later bulks
	if freeze == 2 {
		verifCheckAgainst(pinned, pinnedModel, "pinned root", probe)
	}
	if freeze >= 1 {
		verifCheckAgainst(pinned0, pinnedModel0, "root pinned before the symbolic bulks", probe)
	}
}

// verifFreeze marks a subtree immutable (what a flush or snapshot does to the nodes it keeps).
func verifFreeze(n node) {
	switch x := n.(type) {
	case *leafNode:
		x.mut = false
	case *innerNode:
		x.mut = false
		for _, c := range x.nodes {
			verifFreeze(c)
		}
	}
}

// VerifH_TreeHistoryAndRanges: the multi-version reads of the tree against the reference map.
// `bulks` single-pair bulk inserts over two keys (symbolic key choice, values and explicit or
// automatic timestamps) give each key up to `bulks` versions, on top of a concrete preload that
// already split the tree; then, for a symbolic probe key:
//  * history(key, offset, desc, limit) returns exactly the versions offset.. of the key in the
//    requested order (at most limit), with the total number of versions; offset == count is
//    "no more entries", larger offsets are refused;
//  * getBetween(key, lo, hi) returns the newest version with lo <= ts <= hi together with its
//    revision number in commit order, or not-found.
func VerifH_TreeHistoryAndRanges() {
	bulks := verifrt.Param("bulks")
	desc := verifrt.Param("desc") == 1
	t := verifNewTree(verifrt.Param("nodeSize"))
	m := &verifModel{}
	for i := 0; i < verifrt.Param("preload"); i++ {
		k := byte(10 * (i + 1))
		verifrt.Assume(t.bulkInsert([]*KVT{{K: []byte{k}, V: []byte{1}}}) == nil)
		m.put(k, 1, m.ts+1)
	}
	for b := 0; b < bulks; b++ {
		k := byte(10)
		if verifrt.Bool("otherKey") {
			k = 15 // not preloaded: lands between two preloaded keys
		}
		v := verifrt.Byte("v")
		var ts uint64
		if verifrt.Bool("explicitTs") {
			ts = verifrt.U64("ts")
			verifrt.Assume(ts > m.ts && ts <= m.ts+3)
		}
		verifrt.Assert(t.bulkInsert([]*KVT{{K: []byte{k}, V: []byte{v}, T: ts}}) == nil, "insert")
		if ts == 0 {
			ts = m.ts + 1
		}
		m.put(k, v, ts)
	}
	probe := byte(10)
	if verifrt.Bool("probeOther") {
		probe = 15
	}
	i := m.find(probe)
	offset, limit := verifrt.U64("offset"), verifrt.Int("limit")
	verifrt.Assume(limit >= 1 && limit <= bulks+2 && offset <= uint64(bulks)+3)
	tvs, hc, err := t.root.history([]byte{probe}, offset, desc, limit)
	lo, hi := verifrt.U64("lo"), verifrt.U64("hi")
	verifrt.Assume(lo <= hi && hi >= 1 && hi <= m.ts+1)
	bv, bts, bhc, berr := t.root.getBetween([]byte{probe}, lo, hi)
	if i < 0 {
		verifrt.Assert(err != nil && berr != nil, "absent key: no history, no version")
		verifrt.Reach("absent")
		return
	}
	vs := m.keys[i].versions
	n := uint64(len(vs))
	switch {
	case offset == n:
		verifrt.Assert(err == ErrNoMoreEntries, "offset at the end: no more entries")
	case offset > n:
		verifrt.Assert(err != nil, "offset beyond the history is refused")
	default:
		verifrt.Assert(err == nil && hc == n, "history served with the number of versions")
		want := int(n - offset)
		if want > limit {
			want = limit
		}
		verifrt.Assert(len(tvs) == want, "page length")
		for j := 0; j < len(tvs) && j < len(vs); j++ {
			r := int(offset) + j // index in commit order
			if desc {
				r = len(vs) - 1 - int(offset) - j
			}
			for q := range vs {
				if q == r {
					verifrt.Assert(tvs[j].Ts == vs[q].ts && len(tvs[j].Value) == 1 && tvs[j].Value[0] == vs[q].val, "history entry is the version at that position")
				}
			}
		}
		verifrt.Reach("history served")
	}
	// newest version inside [lo, hi]
	best := -1
	for q := range vs {
		if vs[q].ts >= lo && vs[q].ts <= hi {
			best = q
		}
	}
	if best < 0 {
		verifrt.Assert(berr != nil, "no version in the range: not found")
		verifrt.Reach("range empty")
		return
	}
	verifrt.Assert(berr == nil, "a version in the range is found")
	for q := range vs {
		if q == best {
			verifrt.Assert(bts == vs[q].ts && len(bv) == 1 && bv[0] == vs[q].val, "getBetween returns the newest version in the range")
			verifrt.Assert(bhc == uint64(q+1), "with its revision number")
		}
	}
	verifrt.Reach("range served")
}

// VerifH_TreePrefixLookup: GetWithPrefix(prefix, exclusion key) on the tree of
// VerifH_TreeHistoryAndRanges (preload + `bulks` symbolic inserts over two keys): for a symbolic
// empty or one-byte prefix and an optional symbolic exclusion key it returns the smallest key that
// is >= the prefix, greater than the exclusion key and carries the prefix, with its latest
// version and revision count - or not-found.
func VerifH_TreePrefixLookup() {
	bulks := verifrt.Param("bulks")
	t := verifNewTree(verifrt.Param("nodeSize"))
	m := &verifModel{}
	for i := 0; i < verifrt.Param("preload"); i++ {
		k := byte(10 * (i + 1))
		verifrt.Assume(t.bulkInsert([]*KVT{{K: []byte{k}, V: []byte{1}}}) == nil)
		m.put(k, 1, m.ts+1)
	}
	for b := 0; b < bulks; b++ {
		k := byte(10)
		if verifrt.Bool("otherKey") {
			k = 15
		}
		v := verifrt.Byte("v")
		verifrt.Assert(t.bulkInsert([]*KVT{{K: []byte{k}, V: []byte{v}}}) == nil, "insert")
		m.put(k, v, m.ts+1)
	}
	// prefix lookup with an exclusion key: the smallest key that is >= the prefix, greater than
	// the exclusion key (when given) and carries the prefix; with its latest version
	{
		var prefix, neq []byte
		if !verifrt.Bool("emptyPrefix") {
			prefix = []byte{verifrt.Byte("prefixKey")}
		}
		if verifrt.Bool("hasNeq") {
			neq = []byte{verifrt.Byte("neqKey")}
		}
		k, v, ts, hc, err := t.GetWithPrefix(prefix, neq)
		best := -1
		for i := range m.keys {
			key := m.keys[i].key
			if len(prefix) == 1 && key < prefix[0] {
				continue
			}
			if len(neq) == 1 && key <= neq[0] {
				continue
			}
			if best < 0 || key < m.keys[best].key {
				best = i
			}
		}
		if best < 0 || (len(prefix) == 1 && m.keys[best].key != prefix[0]) {
			verifrt.Assert(err != nil, "prefix lookup: nothing under the prefix beyond the exclusion key")
			verifrt.Reach("prefix miss")
		} else {
			vs := m.keys[best].versions
			verifrt.Assert(err == nil && len(k) == 1 && k[0] == m.keys[best].key, "prefix lookup: the smallest key under the prefix beyond the exclusion key")
			verifrt.Assert(len(v) == 1 && v[0] == vs[len(vs)-1].val && ts == vs[len(vs)-1].ts && hc == uint64(len(vs)), "prefix lookup: its latest version and revision count")
			verifrt.Reach("prefix hit")
		}
	}
}

// verifLog is an in-memory appendable (node log / history log of a flushed tree).
type verifLog struct{ b []byte }

func (a *verifLog) Metadata() []byte                   { return nil }
func (a *verifLog) Size() (int64, error)               { return int64(len(a.b)), nil }
func (a *verifLog) Offset() int64                      { return int64(len(a.b)) }
func (a *verifLog) SetOffset(off int64) error          { a.b = a.b[:off]; return nil }
func (a *verifLog) DiscardUpto(off int64) error        { return nil }
func (a *verifLog) Flush() error                       { return nil }
func (a *verifLog) Sync() error                        { return nil }
func (a *verifLog) SwitchToReadOnlyMode() error        { return nil }
func (a *verifLog) Close() error                       { return nil }
func (a *verifLog) Copy(dstPath string) error          { return nil }
func (a *verifLog) CompressionFormat() int             { return 0 }
func (a *verifLog) CompressionLevel() int              { return 0 }
func (a *verifLog) Write(bs []byte) (int, error)       { a.b = append(a.b, bs...); return len(bs), nil }
func (a *verifLog) Append(bs []byte) (int64, int, error) {
	off := int64(len(a.b))
	a.b = append(a.b, bs...)
	return off, len(bs), nil
}
func (a *verifLog) ReadAt(bs []byte, off int64) (int, error) {
	if off < 0 || off >= int64(len(a.b)) {
		return 0, io.EOF
	}
	n := copy(bs, a.b[off:])
	if n < len(bs) {
		return n, io.EOF
	}
	return n, nil
}

// VerifH_TreeFlushRoundTrip: a flushed tree answers as the in-memory one ("reads are unaffected
// by flushes"). The tree of VerifH_TreeHistoryAndRanges (preload + `bulks` symbolic inserts over
// two keys, so keys carry several versions) is serialized by the real node writers
// (innerNode/leafNode.writeTo: node log + history log) and loaded back by the real readers
// (readNodeAt / readNodeFrom, node references resolved on demand; the node cache is bypassed).
// On the loaded tree, for a symbolic probe key: get returns the latest version with the revision
// count; history (symbolic offset/limit, asc/desc) and getBetween (symbolic range) -- now served
// from the history log -- return what the reference map says.
func VerifH_TreeFlushRoundTrip() {
	bulks := verifrt.Param("bulks")
	desc := verifrt.Param("desc") == 1
	t := verifNewTree(verifrt.Param("nodeSize"))
	m := &verifModel{}
	for i := 0; i < verifrt.Param("preload"); i++ {
		k := byte(10 * (i + 1))
		verifrt.Assume(t.bulkInsert([]*KVT{{K: []byte{k}, V: []byte{1}}}) == nil)
		m.put(k, 1, m.ts+1)
	}
	for b := 0; b < bulks; b++ {
		k := byte(10)
		if verifrt.Bool("otherKey") {
			k = 15
		}
		v := verifrt.Byte("v")
		verifrt.Assert(t.bulkInsert([]*KVT{{K: []byte{k}, V: []byte{v}}}) == nil, "insert")
		m.put(k, v, m.ts+1)
	}
	nLog, hLog := &verifLog{}, &verifLog{}
	buf := make([]byte, 4096)
	verifrt.Stub("(*embedded/tbtree.TBtree).nodeAt", func(t *TBtree, offset int64, updateCache bool) (node, error) {
		return t.readNodeAt(offset)
	})
	verifrt.Stub("(*embedded/tbtree.TBtree).cachePut", func(t *TBtree, n node) {})
	// bulks2 > 0: a first flush that commits (in-memory versions are dropped, flushed nodes
	// become references into the node log), then bulks2 more symbolic inserts, then the flush
	// that is loaded back: older versions then sit in an EARLIER chunk of the history log
	if bulks2 := verifrt.Param("bulks2"); bulks2 > 0 {
		t.nLog, t.hLog = nLog, hLog
		_, _, _, _, err := t.root.writeTo(nLog, hLog, &WriteOpts{commitLog: true, reportProgress: func(int, int, int) {}}, buf)
		verifrt.Assert(err == nil, "first flush")
		for b := 0; b < bulks2; b++ {
			k := byte(10)
			if verifrt.Bool("otherKey2") {
				k = 15
			}
			v := verifrt.Byte("v2")
			verifrt.Assert(t.bulkInsert([]*KVT{{K: []byte{k}, V: []byte{v}}}) == nil, "insert after the first flush")
			m.put(k, v, m.ts+1)
		}
	}
	n0, h0 := int64(len(nLog.b)), int64(len(hLog.b))
	nOff, _, wN, wH, err := t.root.writeTo(nLog, hLog, &WriteOpts{BaseNLogOffset: n0, BaseHLogOffset: h0, reportProgress: func(int, int, int) {}}, buf)
	verifrt.Assert(err == nil, "tree written")
	verifrt.Assert(wN == int64(len(nLog.b))-n0 && wH == int64(len(hLog.b))-h0, "reported sizes are the bytes written")
	t2 := verifNewTree(verifrt.Param("nodeSize"))
	t2.nLog, t2.hLog = nLog, hLog
	root, err := t2.readNodeAt(nOff)
	verifrt.Assert(err == nil, "root loaded")
	verifrt.Reach("loaded")

	probe := byte(10)
	switch verifrt.Byte("probe") % 3 {
	case 1:
		probe = 15
	case 2:
		probe = 20
	}
	i := m.find(probe)
	v, ts, hc, gerr := root.get([]byte{probe})
	offset, limit := verifrt.U64("offset"), verifrt.Int("limit")
	total := bulks + verifrt.Param("bulks2")
	verifrt.Assume(limit >= 1 && limit <= total+2 && offset <= uint64(total)+3)
	tvs, hcount, herr := root.history([]byte{probe}, offset, desc, limit)
	lo, hi := verifrt.U64("lo"), verifrt.U64("hi")
	verifrt.Assume(lo <= hi && hi >= 1 && hi <= m.ts+1)
	bv, bts, bhc, berr := root.getBetween([]byte{probe}, lo, hi)
	if i < 0 {
		verifrt.Assert(gerr != nil && herr != nil && berr != nil, "absent key stays absent")
		verifrt.Reach("absent")
		return
	}
	vs := m.keys[i].versions
	n := uint64(len(vs))
	verifrt.Assert(gerr == nil && len(v) == 1 && v[0] == vs[n-1].val && ts == vs[n-1].ts && hc == n, "lookup on the loaded tree: latest version and revision count")
	switch {
	case offset == n:
		verifrt.Assert(herr == ErrNoMoreEntries, "offset at the end: no more entries")
	case offset > n:
		verifrt.Assert(herr != nil, "offset beyond the history is refused")
	default:
		verifrt.Assert(herr == nil && hcount == n, "history served with the number of versions")
		want := int(n - offset)
		if want > limit {
			want = limit
		}
		verifrt.Assert(len(tvs) == want, "page length")
		for j := 0; j < len(tvs) && j < len(vs); j++ {
			r := int(offset) + j
			if desc {
				r = len(vs) - 1 - int(offset) - j
			}
			for q := range vs {
				if q == r {
					verifrt.Assert(tvs[j].Ts == vs[q].ts && len(tvs[j].Value) == 1 && tvs[j].Value[0] == vs[q].val, "history entry is the version at that position")
				}
			}
		}
		verifrt.Reach("history served")
	}
	best := -1
	for q := range vs {
		if vs[q].ts >= lo && vs[q].ts <= hi {
			best = q
		}
	}
	if best < 0 {
		verifrt.Assert(berr != nil, "no version in the range: not found")
		verifrt.Reach("range empty")
		return
	}
	verifrt.Assert(berr == nil, "a version in the range is found")
	for q := range vs {
		if q == best {
			verifrt.Assert(bts == vs[q].ts && len(bv) == 1 && bv[0] == vs[q].val, "getBetween returns the newest version in the range")
			verifrt.Assert(bhc == uint64(q+1), "with its revision number")
		}
	}
	verifrt.Reach("range served")
}
