//go:build verif

package schema

import (
	"github.com/codenotary/immudb/embedded/verifrt"
)

func verifTxHeaderMsg(name string) *TxHeader {
	if verifrt.Bool(name + ".nil") {
		return nil
	}
	h := &TxHeader{Id: verifrt.U64(name + ".id"), Ts: verifrt.I64(name + ".ts"), Version: int32(verifrt.U32(name + ".version")),
		Nentries: int32(verifrt.U32(name + ".nentries")), BlTxId: verifrt.U64(name + ".blTxId"),
		PrevAlh: verifrt.BytesUpTo(name+".prevAlh", 33), EH: verifrt.BytesUpTo(name+".eh", 33), BlRoot: verifrt.BytesUpTo(name+".blRoot", 33)}
	if verifrt.Bool(name + ".hasMD") {
		h.Metadata = &TxMetadata{TruncatedTxID: verifrt.U64(name + ".trunc"), Extra: verifrt.BytesUpTo(name+".extra", 2)}
	}
	return h
}

func verifDigestList(name string) [][]byte {
	n := verifrt.Param("nlist") // digests per list (each of symbolic length 0..33)
	var out [][]byte
	for i := 0; i < n; i++ {
		out = append(out, verifrt.BytesUpTo(name, 33))
	}
	return out
}

// VerifH_FromProtoTotal: messages received from the server are untrusted: any sub-message may be
// missing (nil) and any digest field may have any length. The conversion functions the client
// runs before verifying (DualProofFromProto, DualProofV2FromProto, TxHeaderFromProto,
// LinearProofFromProto, LinearAdvanceProofFromProto, InclusionProofFromProto, TxFromProto,
// KVMetadataFromProto) return a value (possibly nil) and never panic.
func VerifH_FromProtoTotal() {
	switch verifrt.Param("which") {
	case 0:
		var p *DualProof
		if !verifrt.Bool("proof.nil") {
			p = &DualProof{SourceTxHeader: verifTxHeaderMsg("src"), TargetTxHeader: verifTxHeaderMsg("tgt"),
				InclusionProof: verifDigestList("incl"), ConsistencyProof: verifDigestList("cons"),
				TargetBlTxAlh: verifrt.BytesUpTo("tbl", 33), LastInclusionProof: verifDigestList("last")}
			if !verifrt.Bool("lp.nil") {
				p.LinearProof = &LinearProof{SourceTxId: verifrt.U64("lp.src"), TargetTxId: verifrt.U64("lp.tgt"), Terms: verifDigestList("lp.terms")}
			}
			if !verifrt.Bool("lap.nil") {
				p.LinearAdvanceProof = &LinearAdvanceProof{LinearProofTerms: verifDigestList("lap.terms")}
				if verifrt.Bool("lap.hasIncl") {
					var ip *InclusionProof
					if !verifrt.Bool("lap.incl.nil") {
						ip = &InclusionProof{Terms: verifDigestList("lap.incl.terms")}
					}
					p.LinearAdvanceProof.InclusionProofs = []*InclusionProof{ip}
				}
			}
		}
		_ = DualProofFromProto(p)
	case 1:
		var p *DualProofV2
		if !verifrt.Bool("proof.nil") {
			p = &DualProofV2{SourceTxHeader: verifTxHeaderMsg("src"), TargetTxHeader: verifTxHeaderMsg("tgt"),
				InclusionProof: verifDigestList("incl"), ConsistencyProof: verifDigestList("cons")}
		}
		_ = DualProofV2FromProto(p)
	case 2:
		var ip *InclusionProof
		if !verifrt.Bool("proof.nil") {
			ip = &InclusionProof{Leaf: int32(verifrt.U32("leaf")), Width: int32(verifrt.U32("width")), Terms: verifDigestList("terms")}
		}
		_ = InclusionProofFromProto(ip)
	default:
		var tx *Tx
		if !verifrt.Bool("tx.nil") {
			tx = &Tx{Header: verifTxHeaderMsg("hdr")}
			if verifrt.Bool("tx.hasEntry") {
				var e *TxEntry
				if !verifrt.Bool("entry.nil") {
					e = &TxEntry{Key: verifrt.BytesUpTo("key", 2), HValue: verifrt.BytesUpTo("hval", 33), VLen: int32(verifrt.U32("vlen"))}
					if verifrt.Bool("entry.hasMD") {
						e.Metadata = &KVMetadata{Deleted: verifrt.Bool("md.deleted"), NonIndexable: verifrt.Bool("md.nonIndexable")}
						if verifrt.Bool("md.hasExp") {
							e.Metadata.Expiration = &Expiration{ExpiresAt: verifrt.I64("md.expiresAt")}
						}
					}
				}
				tx.Entries = []*TxEntry{e}
			}
		}
		_ = TxFromProto(tx)
	}
	verifrt.Reach("converted")
}
