//go:build verif

package database

import (
	"github.com/codenotary/immudb/embedded/store"
	"github.com/codenotary/immudb/embedded/verifrt"
	"github.com/codenotary/immudb/pkg/api/schema"
)

// VerifH_ReplicaAcksAllowance: the primary's commit allowance under synchronous replication.
// Pre-state: up to three known replicas (presence and reported precommitted tx symbolic), the
// primary's committed tx symbolic, syncAcks = 1..3. A replica (one of the known ones or a new
// one, symbolic) reports a new state. The real mayUpdateReplicaState then calls
// ImmuStore.AllowCommitUpto(x) only when at least syncAcks replicas have reported a
// precommitted tx >= x; a replica's recorded progress never goes backwards (a lagging report is
// refused); at most one allowance call is made per report.
func VerifH_ReplicaAcksAllowance() {
	syncAcks := verifrt.Param("syncAcks")
	committed := verifrt.U64("committed")
	verifrt.Assume(committed <= 5)
	uuids := []string{"a", "b", "c", "d"}
	states := map[string]*replicaState{}
	var before [4]uint64
	var had [4]bool
	for i := 0; i < 3; i++ {
		if verifrt.Bool("present") {
			tx := verifrt.U64("tx")
			verifrt.Assume(tx <= 8)
			states[uuids[i]] = &replicaState{precommittedTxID: tx}
			before[i], had[i] = tx, true
		}
	}
	var allowed []uint64
	verifrt.Stub("(*embedded/store.ImmuStore).AllowCommitUpto", func(s *store.ImmuStore, txID uint64) error {
		allowed = append(allowed, txID)
		return nil
	})
	d := &db{st: &store.ImmuStore{}, options: &Options{syncAcks: syncAcks}, replicaStates: states}
	who := int(verifrt.Byte("who") % 4)
	newTx := verifrt.U64("newTx")
	verifrt.Assume(newTx <= 9)
	alh := verifrt.Bytes("newAlh", 32)
	err := d.mayUpdateReplicaState(committed, &schema.ReplicaState{UUID: uuids[who], PrecommittedTxID: newTx, PrecommittedAlh: alh})

	verifrt.Assert(len(allowed) <= 1, "at most one allowance per report")
	for i := 0; i < 4; i++ {
		st, ok := d.replicaStates[uuids[i]]
		if ok && had[i] {
			verifrt.Assert(st.precommittedTxID >= before[i], "a replica's recorded progress never goes backwards")
		}
	}
	if err != nil {
		verifrt.Assert(len(allowed) == 0, "a refused report allows nothing")
		verifrt.Assert(had[who%4] && newTx < before[who%4], "only a lagging report is refused")
		verifrt.Reach("refused")
		return
	}
	if len(allowed) == 1 {
		x := allowed[0]
		acks := 0
		for i := 0; i < 4; i++ {
			if st, ok := d.replicaStates[uuids[i]]; ok && st.precommittedTxID >= x {
				acks++
			}
		}
		verifrt.Assert(acks >= syncAcks, "allowance only up to a tx acknowledged by at least syncAcks replicas")
		verifrt.Assert(x > committed, "allowance is beyond the committed frontier")
		verifrt.Reach("allowed")
	} else {
		verifrt.Reach("not allowed")
	}
}

// VerifH_ReplicaAllowCommit: replica side of the allowance. The primary says "commit up to
// (txID, alh)". The real db.AllowCommitUpto lets the store commit up to txID only if the
// replica's own transaction txID has exactly that accumulated hash (header fields symbolic; real
// Alh code); when txID is the replica's committed transaction, the committed Alh must match.
// A non-replica refuses.
func VerifH_ReplicaAllowCommit() {
	local := &store.TxHeader{ID: verifrt.U64("txID"), Ts: verifrt.I64("ts"), BlTxID: verifrt.U64("blTxID"), BlRoot: verifrt.Digest("blRoot"),
		PrevAlh: verifrt.Digest("prevAlh"), Version: verifrt.Param("version"), NEntries: int(verifrt.U16("nentries")), Eh: verifrt.Digest("eh")}
	committedID, committedAlh := verifrt.U64("committedID"), verifrt.Digest("committedAlh")
	var allowed []uint64
	verifrt.Stub("(*embedded/store.ImmuStore).AllowCommitUpto", func(s *store.ImmuStore, txID uint64) error {
		allowed = append(allowed, txID)
		return nil
	})
	verifrt.Stub("(*embedded/store.ImmuStore).CommittedAlh", func(s *store.ImmuStore) (uint64, [32]byte) { return committedID, committedAlh })
	verifrt.Stub("(*embedded/store.ImmuStore).ReadTxHeader", func(s *store.ImmuStore, txID uint64, allowPrecommitted bool, skipIntegrityCheck bool) (*store.TxHeader, error) {
		if txID != local.ID || !allowPrecommitted {
			return nil, store.ErrTxNotFound
		}
		return local, nil
	})
	replica := verifrt.Bool("replica")
	d := &db{st: &store.ImmuStore{}, options: &Options{replica: replica}, mutex: &instrumentedRWMutex{}}
	txID, alh := verifrt.U64("askedTxID"), verifrt.Digest("askedAlh")
	err := d.AllowCommitUpto(txID, alh)
	if !replica {
		verifrt.Assert(err != nil && len(allowed) == 0, "a primary refuses")
		verifrt.Reach("not a replica")
		return
	}
	if len(allowed) > 0 {
		verifrt.Assert(err == nil && len(allowed) == 1 && allowed[0] == txID, "store allowance is for the asked transaction")
		verifrt.Assert(txID == local.ID && local.Alh() == alh, "the replica's own transaction has the primary's accumulated hash")
		verifrt.Reach("allowed")
		return
	}
	if err == nil {
		verifrt.Assert(txID == committedID && committedAlh == alh, "nothing to do only when already committed with the same state")
		verifrt.Reach("already committed")
		return
	}
	verifrt.Reach("refused")
}
