//go:build verif

package database

import (
	"context"

	"github.com/codenotary/immudb/embedded/store"
	"github.com/codenotary/immudb/embedded/verifrt"
	"github.com/codenotary/immudb/pkg/api/schema"
)

// VerifH_GetWaitsForIndexing: the sequential mechanism behind "a read that starts after a write
// returned sees that write". For every KeyRequest (SinceTx, NoWait, AtTx, AtRevision symbolic)
// and every committed frontier, the real db.Get reaches the index (point lookup or revision
// lookup) only after WaitForIndexingUpto(x) returned nil with x = SinceTx when given, else the
// committed frontier read at call time -- unless the caller opted out (NoWait) or pinned a tx
// (AtTx); SinceTx beyond the frontier is refused; a failed wait is reported, not ignored.
func VerifH_GetWaitsForIndexing() {
	frontier := verifrt.U64("frontier")
	var trace []string
	var waitedFor uint64
	waitFails := verifrt.Bool("waitFails")
	verifrt.Stub("(*embedded/store.ImmuStore).CommittedAlh", func(s *store.ImmuStore) (uint64, [32]byte) { return frontier, [32]byte{} })
	verifrt.Stub("(*pkg/database.db).WaitForIndexingUpto", func(d *db, ctx context.Context, txID uint64) error {
		trace = append(trace, "wait")
		waitedFor = txID
		if waitFails {
			return store.ErrAlreadyClosed
		}
		return nil
	})
	var readAtTx uint64
	verifrt.Stub("(*pkg/database.db).getAtTx", func(d *db, ctx context.Context, key []byte, atTx uint64, resolved int, index store.KeyIndex, revision uint64, skip bool) (*schema.Entry, error) {
		trace = append(trace, "read")
		readAtTx = atTx
		return &schema.Entry{}, nil
	})
	verifrt.Stub("(*pkg/database.db).getAtRevision", func(d *db, ctx context.Context, key []byte, atRevision int64, skip bool) (*schema.Entry, error) {
		trace = append(trace, "read")
		return &schema.Entry{}, nil
	})
	d := &db{st: &store.ImmuStore{}}
	req := &schema.KeyRequest{Key: []byte{1}, SinceTx: verifrt.U64("sinceTx"), NoWait: verifrt.Bool("noWait"), AtTx: verifrt.U64("atTx"), AtRevision: verifrt.I64("atRevision")}
	_, err := d.Get(context.Background(), req)
	reads, waits := 0, 0
	for _, e := range trace {
		if e == "read" {
			reads++
			verifrt.Assert(req.NoWait || req.AtTx != 0 || waits == 1, "the index is read only after the wait")
		} else {
			waits++
		}
	}
	if err != nil {
		verifrt.Assert(reads == 0, "a refused or failed request reads nothing")
		verifrt.Reach("refused")
		return
	}
	verifrt.Assert(reads == 1, "exactly one lookup")
	verifrt.Assert(req.SinceTx <= frontier, "SinceTx beyond the committed frontier is refused")
	if !req.NoWait && req.AtTx == 0 {
		verifrt.Assert(waits == 1 && !waitFails, "default waiting: the wait returned nil")
		if req.SinceTx > 0 {
			verifrt.Assert(waitedFor == req.SinceTx, "waits for SinceTx")
		} else {
			verifrt.Assert(waitedFor == frontier, "waits for everything committed when the call started")
		}
		verifrt.Reach("waited")
	} else {
		verifrt.Assert(waits == 0, "NoWait / AtTx: no wait")
		verifrt.Reach("no wait")
	}
	if req.AtTx != 0 {
		verifrt.Assert(readAtTx == req.AtTx, "pinned tx passed through")
	}
}

// VerifH_GetAtRevision: which version a revision number selects. The key has hcount versions
// (tx ids increasing); revision r > 0 is the r-th oldest, r < 0 counts back from the latest
// (-1 = the one before the latest). The real getAtRevision over the store's History (a stub serving pages of the
// version list, as decided under C04/C10) looks up exactly that version's transaction and
// reports its absolute revision number; revisions outside 1..hcount are ErrInvalidRevision.
func VerifH_GetAtRevision() {
	hcount := verifrt.Param("hcount")
	txs := make([]uint64, hcount)
	for i := range txs {
		txs[i] = verifrt.U64("tx")
		if i > 0 {
			verifrt.Assume(txs[i] > txs[i-1])
		}
	}
	verifrt.Stub("(*embedded/store.ImmuStore).History", func(s *store.ImmuStore, key []byte, offset uint64, desc bool, limit int) ([]store.ValueRef, uint64, error) {
		if offset == uint64(hcount) {
			return nil, 0, store.ErrNoMoreEntries
		}
		if offset > uint64(hcount) {
			return nil, 0, store.ErrOffsetOutOfRange
		}
		for k := 0; k < hcount; k++ {
			if uint64(k) == offset {
				r := k
				if desc {
					r = hcount - 1 - k
				}
				return []store.ValueRef{store.VerifValueRef(txs[r], uint64(r+1))}, uint64(hcount), nil
			}
		}
		return nil, 0, store.ErrOffsetOutOfRange
	})
	var gotTx, gotRev uint64
	verifrt.Stub("(*pkg/database.db).getAtTx", func(d *db, ctx context.Context, key []byte, atTx uint64, resolved int, index store.KeyIndex, revision uint64, skip bool) (*schema.Entry, error) {
		gotTx, gotRev = atTx, revision
		return &schema.Entry{}, nil
	})
	d := &db{st: &store.ImmuStore{}}
	rev := verifrt.I64("revision")
	// 0 means "no revision requested": db.Get, the only caller, never passes it
	verifrt.Assume(rev != 0 && rev >= -int64(hcount)-2 && rev <= int64(hcount)+2)
	_, err := d.getAtRevision(context.Background(), []byte{1}, rev, true)
	want := rev // absolute revision 1..hcount
	if rev < 0 {
		want = int64(hcount) + rev
	}
	if want < 1 || want > int64(hcount) {
		verifrt.Assert(err == ErrInvalidRevision, "a revision outside the history is refused")
		verifrt.Reach("invalid")
		return
	}
	verifrt.Assert(err == nil, "a revision inside the history is served")
	for q := 0; q < hcount; q++ {
		if int64(q+1) == want {
			verifrt.Assert(gotTx == txs[q], "the selected version is the one with that revision number")
		}
	}
	verifrt.Assert(gotRev == uint64(want), "reported revision is the absolute one")
	verifrt.Reach("served")
}

// verifRef is a store.ValueRef served by the History stub below.
type verifRef struct {
	tx, hc  uint64
	val     []byte
	expired bool
	md      *store.KVMetadata
}

func (r *verifRef) Resolve() ([]byte, error) {
	if r.expired {
		return nil, store.ErrExpiredEntry
	}
	return r.val, nil
}
func (r *verifRef) Tx() uint64                     { return r.tx }
func (r *verifRef) HC() uint64                     { return r.hc }
func (r *verifRef) TxMetadata() *store.TxMetadata  { return nil }
func (r *verifRef) KVMetadata() *store.KVMetadata  { return r.md }
func (r *verifRef) HVal() [32]byte                 { return [32]byte{} }
func (r *verifRef) Len() uint32                    { return uint32(len(r.val)) }
func (r *verifRef) VOff() int64                    { return 0 }

// VerifH_HistoryPages: the History RPC of a database. The key has hcount versions (symbolic
// increasing tx ids, symbolic one-byte values stored with the plain-value prefix, the oldest one
// possibly expired); the request (offset, limit, desc, SinceTx) is symbolic. The real db.History
// waits for indexing up to SinceTx / the committed frontier before reading, refuses limits above
// the maximum result size and SinceTx beyond the frontier, and returns exactly the requested page:
// for each entry the tx id, the revision number of that version, the key asked for and the stored
// value without its prefix (or the expired flag).
func VerifH_HistoryPages() {
	hcount := verifrt.Param("hcount")
	maxRes := 3
	refs := make([]*verifRef, hcount)
	for i := range refs {
		refs[i] = &verifRef{tx: verifrt.U64("tx"), hc: uint64(i + 1), val: []byte{PlainValuePrefix, verifrt.Byte("val")}}
		if i > 0 {
			verifrt.Assume(refs[i].tx > refs[i-1].tx)
		}
	}
	if verifrt.Bool("oldestExpired") {
		refs[0].expired = true
	}
	frontier := verifrt.U64("frontier")
	var waited []uint64
	verifrt.Stub("(*embedded/store.ImmuStore).CommittedAlh", func(s *store.ImmuStore) (uint64, [32]byte) { return frontier, [32]byte{} })
	verifrt.Stub("(*pkg/database.db).WaitForIndexingUpto", func(d *db, ctx context.Context, txID uint64) error {
		waited = append(waited, txID)
		return nil
	})
	reads := 0
	var askedLimit int
	verifrt.Stub("(*embedded/store.ImmuStore).History", func(s *store.ImmuStore, key []byte, offset uint64, desc bool, limit int) ([]store.ValueRef, uint64, error) {
		reads++
		askedLimit = limit
		verifrt.Assert(len(waited) == 1, "the index is read only after the wait")
		if offset == uint64(hcount) {
			return nil, 0, store.ErrNoMoreEntries
		}
		if offset > uint64(hcount) {
			return nil, 0, store.ErrOffsetOutOfRange
		}
		var out []store.ValueRef
		for k := 0; k < hcount && len(out) < limit; k++ {
			if uint64(k) < offset {
				continue
			}
			r := k
			if desc {
				r = hcount - 1 - k
			}
			out = append(out, refs[r])
		}
		return out, uint64(hcount), nil
	})
	d := &db{st: &store.ImmuStore{}, maxResultSize: maxRes}
	req := &schema.HistoryRequest{Key: []byte{7}, Offset: verifrt.U64("offset"), Limit: int32(verifrt.Byte("limit") % 6), Desc: verifrt.Bool("desc"), SinceTx: verifrt.U64("sinceTx")}
	verifrt.Assume(req.Offset <= uint64(hcount)+1)
	list, err := d.History(context.Background(), req)
	if int(req.Limit) > maxRes || req.SinceTx > frontier {
		verifrt.Assert(err != nil && reads == 0, "oversized limits and SinceTx beyond the frontier are refused before reading")
		verifrt.Reach("refused")
		return
	}
	if req.Offset == uint64(hcount) {
		verifrt.Assert(err != nil, "a page starting at the end of the history is reported")
		verifrt.Reach("no more entries")
		return
	}
	verifrt.Assert(err == nil && reads == 1, "history served")
	want := req.SinceTx
	if want == 0 {
		want = frontier
	}
	verifrt.Assert(len(waited) == 1 && waited[0] == want, "waited for SinceTx, or for everything committed at call time")
	lim := int(req.Limit)
	if lim == 0 {
		lim = maxRes
	}
	verifrt.Assert(askedLimit == lim, "limit 0 means the maximum result size")
	n := 0
	if req.Offset < uint64(hcount) {
		n = hcount - int(req.Offset)
		if n > lim {
			n = lim
		}
	}
	verifrt.Assert(len(list.Entries) == n, "page length")
	for j := 0; j < n && j < len(list.Entries); j++ {
		k := int(req.Offset) + j
		r := k
		if req.Desc {
			r = hcount - 1 - k
		}
		for q := 0; q < hcount; q++ {
			if q == r {
				e := list.Entries[j]
				verifrt.Assert(e.Tx == refs[q].tx && e.Revision == uint64(q+1), "entry carries the tx id and revision of its version")
				verifrt.Assert(len(e.Key) == 1 && e.Key[0] == 7, "entry carries the key asked for")
				if refs[q].expired {
					verifrt.Assert(e.Expired && len(e.Value) == 0, "an expired version is flagged, without value")
				} else {
					verifrt.Assert(!e.Expired && len(e.Value) == 1 && e.Value[0] == refs[q].val[1], "value without the storage prefix")
				}
			}
		}
	}
	verifrt.Reach("page returned")
}

