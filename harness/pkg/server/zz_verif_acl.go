//go:build verif

package server

import (
	"context"
	"errors"

	"github.com/codenotary/immudb/embedded/verifrt"
	"github.com/codenotary/immudb/pkg/auth"
	"github.com/codenotary/immudb/pkg/database"
)

// verifDB / verifDBList: just enough of the interfaces for the permission kernel.
type verifDB struct {
	database.DB
	name string
}

func (d *verifDB) GetName() string { return d.name }

type verifDBList struct {
	database.DatabaseList
	dbs []*verifDB
}

func (l *verifDBList) GetByIndex(index int) (database.DB, error) {
	if index < 0 || index >= len(l.dbs) {
		return nil, database.ErrDatabaseNotExists
	}
	return l.dbs[index], nil
}

// the oracle: the minimum permission class an RPC requires
const (
	verifClassRead     = 1 // R, RW, Admin, SysAdmin
	verifClassWrite    = 2 // RW, Admin, SysAdmin
	verifClassAdmin    = 3 // Admin, SysAdmin
	verifClassSysAdmin = 4
)

// verifMethodClasses is the reviewed classification of every method name passed to
// getDBFromCtx. A name missing here fails the check (new RPCs cannot slip through).
var verifMethodClasses = map[string]int{
	"Set": 2, "Delete": 2, "VerifiableSet": 2, "StreamSet": 2, "StreamVerifiableSet": 2,
	"Get": 1, "VerifiableGet": 1, "StreamGet": 1, "StreamVerifiableGet": 1,
	"GetAll": 2, // (sic) the table grants GetAll to RW and above only
	"ExecAll": 2, "StreamExecAll": 2, "SetReference": 2, "VerifiableSetReference": 2, "ZAdd": 2, "VerifiableZAdd": 2,
	"ZScan": 1, "StreamZScan": 1, "VerifiableTxByID": 1, "IScan": 1, "Scan": 1, "StreamScan": 1, "History": 1, "StreamHistory": 1,
	"TxByID": 1, "TxScan": 1, "Count": 1, "CountAll": 1, "DatabaseList": 1, "CurrentState": 1, "DatabaseHealth": 1, "DatabaseSettings": 1,
	"SQLExec": 2, "UseSnapshot": 1, "SQLQuery": 1, "ListTables": 1, "DescribeTable": 1, "VerifiableSQLGet": 1,
	"CreateCollection": 2, "GetCollection": 1, "GetCollections": 1, "UpdateCollection": 2, "DeleteCollection": 2,
	"AddField": 2, "RemoveField": 2, "CreateIndex": 2, "DeleteIndex": 2, "InsertDocuments": 2, "ReplaceDocuments": 2, "DeleteDocuments": 2,
	"SearchDocuments": 1, "CountDocuments": 1, "AuditDocument": 1, "ProofDocument": 1,
	"ListUsers": 3, "CreateUser": 3, "ChangePassword": 3, "SetPermission": 3, "DeactivateUser": 3, "SetActiveUser": 3,
	"UpdateAuthConfig": 4, "UpdateMTLSConfig": 4, "CreateDatabase": 4, "CreateDatabaseV2": 4, "UpdateDatabase": 4, "UpdateDatabaseV2": 4,
	"Dump": 3, "FlushIndex": 3, "CompactIndex": 3, "ExportTx": 3, "ReplicateTx": 3,
	"NoSuchMethod": 5, // unknown names must never be granted to non-sysadmins
}

// methods that read only: the ones allowed on the system database / in maintenance mode must be
// a subset of these plus the admin maintenance operations
var verifWritingMethods = map[string]bool{
	"Set": true, "Delete": true, "VerifiableSet": true, "StreamSet": true, "StreamVerifiableSet": true, "ExecAll": true, "StreamExecAll": true,
	"SetReference": true, "VerifiableSetReference": true, "ZAdd": true, "VerifiableZAdd": true, "SQLExec": true,
	// document API: collection DDL and document writes
	"CreateCollection": true, "UpdateCollection": true, "DeleteCollection": true, "AddField": true, "RemoveField": true,
	"CreateIndex": true, "DeleteIndex": true, "InsertDocuments": true, "ReplaceDocuments": true, "DeleteDocuments": true,
}

func verifClassOf(perm uint32) int {
	switch perm {
	case auth.PermissionR:
		return 1
	case auth.PermissionRW:
		return 2
	case auth.PermissionAdmin:
		return 3
	case auth.PermissionSysAdmin:
		return 4
	}
	return 0
}

func verifMethodNames() []string {
	// deterministic order: the names of the real permission table plus the extras
	names := []string{
		"Set", "Delete", "VerifiableSet", "StreamSet", "StreamVerifiableSet", "Get", "VerifiableGet", "StreamGet", "StreamVerifiableGet", "GetAll",
		"ExecAll", "StreamExecAll", "SetReference", "VerifiableSetReference", "ZAdd", "VerifiableZAdd", "ZScan", "StreamZScan", "VerifiableTxByID",
		"IScan", "Scan", "StreamScan", "History", "StreamHistory", "TxByID", "TxScan", "Count", "CountAll", "DatabaseList", "CurrentState",
		"DatabaseHealth", "DatabaseSettings", "SQLExec", "UseSnapshot", "SQLQuery", "ListTables", "DescribeTable", "VerifiableSQLGet",
		"CreateCollection", "GetCollection", "GetCollections", "UpdateCollection", "DeleteCollection", "AddField", "RemoveField", "CreateIndex",
		"DeleteIndex", "InsertDocuments", "ReplaceDocuments", "DeleteDocuments", "SearchDocuments", "CountDocuments", "AuditDocument", "ProofDocument",
		"ListUsers", "CreateUser", "ChangePassword", "SetPermission", "DeactivateUser", "SetActiveUser", "UpdateAuthConfig", "UpdateMTLSConfig",
		"CreateDatabase", "CreateDatabaseV2", "UpdateDatabase", "UpdateDatabaseV2", "Dump", "FlushIndex", "CompactIndex", "ExportTx", "ReplicateTx",
		"NoSuchMethod",
	}
	return names
}

// VerifH_PermissionKernel: for the 8 method names starting at number m0, every option combination, every database
// selection (own db 0/1, system db, none) and every user (sysadmin flag, any 32-bit permission
// code on each database): getDBFromCtx returns a database only if access is legitimate.
func VerifH_PermissionKernel() {
	names := verifMethodNames()
	m := verifrt.Param("m0") + int(verifrt.Byte("mOff")%8) // 8 method names per job
	if m >= len(names) {
		return
	}
	method := names[m]
	class, known := verifMethodClasses[method]
	verifrt.Assert(known, "method is classified")

	authOn, maint, multidb := verifrt.Bool("auth"), verifrt.Bool("maintenance"), verifrt.Bool("multidb")
	dbs := &verifDBList{dbs: []*verifDB{{name: "defaultdb"}, {name: "db1"}}}
	sys := &verifDB{name: SystemDBName}
	s := &ImmuServer{Options: &Options{auth: authOn, maintenance: maint}, multidbmode: multidb, dbList: dbs, sysDB: sys}

	ind := verifrt.Int("dbIndex")
	verifrt.Assume((ind >= -2 && ind <= 3) || ind == sysDBIndex) // none, 0, 1, out of range, system db
	perm0, perm1 := verifrt.U32("perm0"), verifrt.U32("perm1")
	usr := &auth.User{Username: "u", IsSysAdmin: verifrt.Bool("sysadmin"), Active: true,
		Permissions: []auth.Permission{{Permission: perm0, Database: "defaultdb"}, {Permission: perm1, Database: "db1"}}}
	loginFails := verifrt.Bool("loginFails")
	verifrt.Stub("(*pkg/server.ImmuServer).getLoggedInUserdataFromCtx", func(s *ImmuServer, ctx context.Context) (int, *auth.User, error) {
		if loginFails {
			return -1, nil, errors.New("not logged in")
		}
		return ind, usr, nil
	})

	db, err := s.getDBFromCtx(context.Background(), method)
	if err != nil || db == nil {
		verifrt.Reach("denied")
		return
	}
	verifrt.Reach("granted")
	if !authOn && !multidb && !maint {
		// single-database mode without authentication: the default database, by design
		verifrt.Assert(db.GetName() == "defaultdb", "auth off: default database")
		return
	}
	verifrt.Assert(!loginFails, "no database without a logged-in user")
	if maint {
		verifrt.Assert(auth.IsMaintenanceMethod(method), "maintenance mode admits maintenance methods only")
	}
	verifrt.Assert(ind == sysDBIndex || ind == 0 || ind == 1, "a database must be selected")
	if ind == sysDBIndex {
		verifrt.Assert(db.GetName() == SystemDBName, "selected database returned")
		verifrt.Assert(auth.IsMaintenanceMethod(method), "system database: maintenance methods only")
		verifrt.Assert(!verifWritingMethods[method], "system database is never writable through the API")
	} else {
		verifrt.Assert(db.GetName() == dbs.dbs[ind].name, "selected database returned")
	}
	if !usr.IsSysAdmin {
		var p uint32
		switch {
		case ind == 0:
			p = perm0
		case ind == 1:
			p = perm1
		}
		verifrt.Assert(ind != sysDBIndex || verifClassOf(usr.WhichPermission(SystemDBName)) >= class, "system db: permission on it required")
		if ind != sysDBIndex {
			verifrt.Assert(verifClassOf(p) >= class, "permission on the selected database is at least the method's class")
		}
	}
}

// VerifH_MaintenanceMethodsAreReadOrAdmin: no data-writing method is a maintenance method.
func VerifH_MaintenanceMethodsAreReadOrAdmin() {
	for _, n := range verifMethodNames() {
		if verifWritingMethods[n] {
			verifrt.Assert(!auth.IsMaintenanceMethod(n), "writing method is not a maintenance method")
		}
	}
	verifrt.Reach("done")
}
