//go:build verif

package server

import (
	"context"

	"github.com/codenotary/immudb/embedded/verifrt"
	"github.com/codenotary/immudb/pkg/api/schema"
	"github.com/codenotary/immudb/pkg/auth"
	"github.com/codenotary/immudb/pkg/database"
	"github.com/codenotary/immudb/pkg/server/sessions"
)

type verifSrvLogger struct{}

func (verifSrvLogger) Errorf(string, ...interface{})   {}
func (verifSrvLogger) Warningf(string, ...interface{}) {}
func (verifSrvLogger) Infof(string, ...interface{})    {}
func (verifSrvLogger) Debugf(string, ...interface{})   {}
func (verifSrvLogger) Close() error                    { return nil }

// verifSessMgr records which users had their sessions closed.
type verifSessMgr struct {
	sessions.Manager
	closedFor []string
}

func (m *verifSessMgr) CloseSessionsForUser(username string) error {
	m.closedFor = append(m.closedFor, username)
	return nil
}

func (l *verifDBList) GetByName(name string) (database.DB, error) {
	for _, d := range l.dbs {
		if d.name == name {
			return d, nil
		}
	}
	return nil, database.ErrDatabaseNotExists
}

// VerifH_UserChangeInvalidatesLogins: when an administrator changes a user's record (permission
// granted/revoked, SQL privileges, activation, password) every cached authentication state of
// that user is dropped: whatever the number of token logins the user had made (symbolic, 0..3),
// the login table no longer serves a user record for it, and the session manager is told to
// close the user's sessions -- whether or not the user ever logged in with a token.
func VerifH_UserChangeInvalidatesLogins() {
	op := verifrt.Param("op")
	dbs := &verifDBList{dbs: []*verifDB{{name: "defaultdb"}, {name: "db1"}}}
	sm := &verifSessMgr{}
	s := &ImmuServer{Options: &Options{auth: true}, Logger: verifSrvLogger{}, dbList: dbs, sysDB: &verifDB{name: SystemDBName},
		userdata: newUsernameToUserdataMap(), SessManager: sm}
	admin := &auth.User{Username: "root", IsSysAdmin: verifrt.Bool("sysadmin"), Active: true,
		Permissions: []auth.Permission{{Permission: auth.PermissionAdmin, Database: "db1"}}}
	stored := &auth.User{Username: "u", Active: true, CreatedBy: "root",
		Permissions: []auth.Permission{{Permission: auth.PermissionRW, Database: "db1"}}}
	nlogins := verifrt.Int("nlogins")
	verifrt.Assume(nlogins >= 0 && nlogins <= 3)
	for i := 0; i < 3; i++ {
		if i < nlogins {
			cached := *stored
			s.addUserToLoginList(&cached)
		}
	}
	verifrt.Stub("(*pkg/server.ImmuServer).getLoggedInUserdataFromCtx", func(s *ImmuServer, ctx context.Context) (int, *auth.User, error) {
		return 1, admin, nil
	})
	verifrt.Stub("(*pkg/server.ImmuServer).getUser", func(s *ImmuServer, ctx context.Context, username []byte) (*auth.User, error) {
		if string(username) != "u" {
			return nil, database.ErrDatabaseNotExists
		}
		cp := *stored
		return &cp, nil
	})
	saved := 0
	verifrt.Stub("(*pkg/server.ImmuServer).saveUser", func(s *ImmuServer, ctx context.Context, user *auth.User) error {
		saved++
		return nil
	})
	verifrt.Stub("(*pkg/auth.User).SetPassword", func(u *auth.User, pw []byte) ([]byte, error) { return pw, nil })
	verifrt.Stub("pkg/auth.DropTokenKeys", func(username string) bool { return true })
	var err error
	switch op {
	case 0:
		_, err = s.ChangePermission(context.Background(), &schema.ChangePermissionRequest{Action: schema.PermissionAction_REVOKE, Username: "u", Database: "db1", Permission: auth.PermissionRW})
	case 1:
		_, err = s.ChangePermission(context.Background(), &schema.ChangePermissionRequest{Action: schema.PermissionAction_GRANT, Username: "u", Database: "db1", Permission: auth.PermissionR})
	case 2:
		_, err = s.SetActiveUser(context.Background(), &schema.SetActiveUserRequest{Username: "u", Active: false})
	case 3:
		_, err = s.ChangePassword(context.Background(), &schema.ChangePasswordRequest{User: []byte("u"), NewPassword: []byte("New$ecret1")})
	default:
		_, err = s.ChangeSQLPrivileges(context.Background(), &schema.ChangeSQLPrivilegesRequest{Action: schema.PermissionAction_REVOKE, Username: "u", Database: "db1", Privileges: []string{"SELECT"}})
	}
	verifrt.Assert(err == nil && saved == 1, "the administrator's change is applied")
	verifrt.Reach("user changed")
	_, cachedStill := s.userdata.Get("u")
	verifrt.Assert(!cachedStill, "no cached login record of the changed user survives")
	verifrt.Assert(len(sm.closedFor) == 1 && sm.closedFor[0] == "u", "the changed user's sessions are closed")
}
