#!/usr/bin/env python3
"""Regenerates /verif/MANIFEST.json from the table below (claimed checks) + not_applicable."""
import json, os
V = os.path.dirname(os.path.dirname(os.path.abspath(__file__)))
TECH = "SSA->SMT-LIB2 bounded symbolic execution of the real Go code (z3/cvc5 verdicts), counterexamples replayed natively"
NOTE = ("verdicts are z3 4.8.12 / z3 5.1.0 / cvc5 1.0 answers over the symgo SSA->SMT-LIB2 encoding, regenerated from /repo on every run; "
        "every bound (lengths, unwinding, allocation, shapes) is listed per obligation in the evidence and checked, not assumed; "
        "translator validated per run by replaying reachability witnesses natively and in concrete mode; ")
CLAIMED = {
 "C11": ("scan-range completeness, the kernel where the chosen access path can change the set of rows: for INTEGER indexes of 1-2/3 columns and every conjunction of up to 3/4 comparisons with symbolic operators and constants, the key range derived by the real range-folding and key-reader-spec code contains the index key of every row that satisfies the predicate (ascending and descending scans)",
         "NOT the SQL engine end to end: parsing, planning/index selection, push-down, joins, grouping, sorting and restart are outside the claim; other column types rely on the per-type key-order obligations of C15", "DESIGN.md §4 C11"),
 "C10": ("the in-memory timed B-tree against a reference multi-version ordered map over bounded bulk-insert sequences from the empty tree (symbolic keys, values, timestamps; node size forcing splits): structure, in-order content, point lookups, revision counts, rejection of stale timestamps without change, copy-on-write (a pinned root keeps answering as before), history / getBetween per key, and a write-then-load round trip through the real node writers and readers (history served from the history log) giving the same answers",
         "flush bookkeeping (OnlyMutated, offsets, cleanup), compaction, restart, readers (seek/end/direction), snapshot policy and concurrency are outside the claim; 1-byte keys/values, at most 3-4 symbolic bulks on a concrete preload", "DESIGN.md §4 C10"),
 "C03": ("hash-tree crash consistency on the real AHtree code: for every crash point between the appendable operations of a workload of n appends (sync thresholds 1..2/3, optional explicit syncs) and every combination of which unsynced writes reached each of the three logs (plus a torn last commit entry), reopening succeeds, keeps every entry covered by a completed sync and serves only roots/payloads of the appended sequence",
         "the hash tree plus the write ordering of ImmuStore.sync (value logs, tx log and hash tree are flushed and synced before any commit-log entry is appended, and the commit log is synced before the synced frontier moves), decided on a recording appendable; recovery of the whole store (store.OpenWith), the index, repeated crashes and concurrent committers are outside the claim; crash model and granularity are listed in the evidence", "DESIGN.md §4 C03"),
 "C04": ("what reaches the index: for every bulk of committed transactions within the bounds (bulk size, entries per tx, symbolic keys and non-indexable flags) the plain indexer hands the tree exactly one (key, tx id) per indexable entry, in order, with intact key content, and only advances the logical time when nothing is indexable; scans over a snapshot (real NewKeyReader/Read/ReadBetween with the deleted/expired filters, offset, tx range) return exactly the matching live keys in order; History (store and snapshot) numbers every version by its position in commit order on every page; SQL secondary-index entries derived from row values order rows exactly as (indexed columns, primary key) with NULL first",
         "tx reader, semaphore, watchers and the tree (tree reader / tree history under the scan and history harnesses) are stubs/recorders; mapped and injective indexes, seek/end/prefix bounds, pkg/database wrappers, the asynchronous indexer and restart are outside the claim", "DESIGN.md §4 C04"),
 "C06": ("the sequential mechanism behind conditional writes only: a write carrying preconditions (must exist / must not exist / not modified after tx) is admitted iff every precondition holds on the index state it is evaluated on, for every symbolic state and precondition list within the bounds; malformed preconditions are rejected; db.Get reads the index only after waiting for SinceTx / the committed frontier (unless NoWait or AtTx), and AtRevision selects exactly the version with that revision number",
         "linearizability of concurrent histories is NOT decided (no schedules); the index is a symbolic model behind stubs of the KeyIndex methods; wait gating of reads/writes not covered yet", "DESIGN.md §4 C06"),
 "C05": ("validation soundness of MVCC read-sets for point reads, prefix reads and range scans (no phantoms) in a two-phase sequential model: if commit-time validation passes, every recorded read re-evaluated on the commit-time state yields what the transaction observed; no spurious conflict when nothing changed",
         "the index under the snapshot is a symbolic 3-key model behind stubs of the Snapshot methods; prefix fingerprints, bounded or reset readers, real interleavings and the locking discipline are outside the claim", "DESIGN.md §4 C05"),
 "C13": ("the savepoint/rollback write-set kernel on a real store transaction: ROLLBACK TO SAVEPOINT must leave the pending write set and the bookkeeping as they were at the savepoint; Cancel closes the store transaction and refuses commit/writes; symbolic keys and values, up to 2+2 writes; read-your-own-writes of the store transaction through a plain and a mapped index (every read returns the last own write); DDL on a transaction's catalog clone never changes the engine's cached catalog",
         "SQLTx.Savepoint/RollbackToSavepoint/ReleaseSavepoint/Cancel over store.OngoingTx, OngoingTx.set/Get over recorder tree snapshots, Catalog.Clone + the DDL mutators; interleavings of sessions, statement atomicity end to end and pgwire are outside the claim; the write-set part is a recorded known finding (twin harness covers the rest)", "DESIGN.md §4 C13"),
 "C14": ("tombstone safety of value-log truncation: for every history of n transactions whose values landed in any value log at any offsets (out of id order, empty first values), and every cut point, TruncateUptoTx never discards beyond the first value of a transaction at or after the cut, and never discards with embedded values",
         "the transaction table is served by a stub of readTxOffsetAt under the stated placement model; chunk deletion is covered by C17's discard step; truncation racing with writers, restart and the SQL catalog copy are outside the claim", "DESIGN.md §4 C14"),
 "C02": ("one inductive step of the commit frontier from an arbitrary valid pre-state: the precommit ring buffer is a FIFO; mayCommit writes commit-log entries only at committedTxID*entrySize and moves the frontier forward exactly to the allowance; DiscardPrecommittedTxsSince never touches committed ids, the commit log or the tx log; performPrecommit (ID/PrevAlh assignment, record placed exactly at the old frontier, nothing below it changed, record readable back by Tx.readFrom as the same transaction, embedded values where the entries point); AllowCommitUpto is monotone and bounded by the precommit frontier",
         "sequential single steps only: no interleavings of concurrent committers, no restart, no chunk rotation; logs are in-memory appendables; watcher hubs and the hash tree are recorder stubs; the Alh chaining itself is decided under C01/C09", "DESIGN.md §4 C02"),
 "C18": ("the permission decision kernel: getDBFromCtx, HasPermissionForMethod, IsMaintenanceMethod and User.WhichPermission executed for every method name of the permission table crossed with every option combination, database selection, sysadmin flag and every 32-bit permission code: a database is handed out only when the reviewed classification allows it (the system database never for a writing method, incl. the document API); a user whose record is changed (permission, SQL privileges, activation, password) loses every cached token login whatever their number, and the session manager is told to close its sessions",
         "session/token validation is a stub returning a symbolic (database, user) or an error; which name each RPC handler passes to the kernel, session expiry and the pgsql front-end are outside the claim; user storage, bcrypt and token keys are stubs in the user-change harness; the classification table in the harness is the oracle", "DESIGN.md §4 C18"),
 "C07": ("export/replicate framing: ReplicateTx(ExportTx(tx)) hands precommit the same header and entry list for every symbolic transaction within the size bounds (headers v0/v1, all metadata combinations, values present or truncated); replica-side precommit admits a replicated tx only when id, PrevAlh, BlRoot and Eh match the replica's own state; the primary allows commits only up to a tx acknowledged by at least syncAcks replicas",
         "tx reader / value reader, the write-only transaction and store.AllowCommitUpto are harness stubs/recorders; delivery schedules, retries, replica restart and the replicator goroutines are outside the claim", "DESIGN.md §4 C07"),
 "C17": ("the multi-file appendable refines one growable byte array over bounded sequences of append / set-offset / read / discard with symbolic payloads, lengths and offsets, for every chunk-boundary alignment and cache (max-open-files) size within the bounds",
         "chunks are in-memory appendables behind the real hooks interface; the single-file appendable over os.File, compression, reopen and Copy are outside the claim; reads beyond the logical end after a rewind are unspecified (neither appendable truncates on SetOffset)", "DESIGN.md §4 C17"),
 "C01": ("soundness of verification as binding obligations: Alh/entry-digest/linear-proof binding, and the client-history chain (honest prefix, one or two adversarial state advances accepted by VerifyDualProof, then a verified read of an earlier transaction) => the accepted past transaction is the honest one; all headers, digests and proof terms symbolic, ids <= 4 (quick) / 5-6 (thorough)",
         "SHA-256 uninterpreted/collision-free/cycle-free; ECDSA signature checks and the gRPC client/server sequencing are outside the claim; completeness: honest dual proofs assembled from the real generators over a symbolic honest history (ids <= 4/5, every lag shape of BlTxID) are accepted by VerifyDualProof; ImmuStore.DualProof's own assembly over a live store and Tx.Proof/IndexOf are outside the claim", "DESIGN.md §4 C01"),
 "C09": ("integrity-checked reads: value reads return the value of the entry's digest or fail for every value-log content/offset/length; sequential tx scans accept a tx only if it chains to the previous one",
         "a tx record whose bytes are arbitrary (fixed layout: every content byte; free layout: also the length fields, within the stated metadata bounds) is rejected by Tx.readFrom or does not carry the pinned Alh, or yields exactly the original header and entry; compressed/chunked logs outside the claim", "DESIGN.md §4 C09"),
 "C08": ("both hash trees against the reference Merkle construction: generated roots/proofs equal the reference and verify; each verifier accepts only proofs binding the claimed position/size/leaf to the honest root, for all symbolic digests within the size bounds",
         "SHA-256 modelled as an uninterpreted function, collision-free and cycle-free among the evaluations of a path; tree sizes <= 8 (quick) / 16 (thorough)", "DESIGN.md §4 C08"),
 "C15": ("round-trip and order obligations of the real codec functions hold for every value of the symbolic inputs within the stated length bounds",
         "bounds per obligation in evidence", "DESIGN.md §4 C15"),
 "C16": ("every Go run-time panic condition of the listed decoders is an explicit branch whose feasibility the solver decides for all input buffers within the length bounds",
         "listed decoders only, incl. sql.DecodeValue/DecodeValueLength/DecodeNullableValue per column type (not SQL text, pgwire, streams); embedded metadata blocks bounded as stated per obligation", "DESIGN.md §4 C16"),
}
NA = {
 "C12": "constraint enforcement is only reachable through the SQL engine end to end (parser, catalog, live SQLTx), which the SSA->SMT executor cannot encode; ingredients decided under C15/C05",
 "C19": "document engine behaviour is only reachable through the SQL engine and store end to end; not encodable; conversion helpers decided under C15/C16",
}
PENDING = "check under construction in this session: not claimed until its harnesses run clean on the unchanged tree"
props = [json.loads(l)["id"] for l in open(os.path.join(V, "properties.jsonl"))]
checks = []
for p in props:
    if p in CLAIMED:
        text, note, ref = CLAIMED[p]
        checks.append({"property_id": p, "quick_cmd": f"bin/check {p} --tier quick", "thorough_cmd": f"bin/check {p} --tier thorough",
                       "evidence_file": f"/verif/evidence/{p}.json", "replay_cmd_template": "bin/check --replay {path}", "engine": "symgo",
                       "level_claimed": {"category": "model_checking", "text": "bounded model checking of the real code: " + text, "design_ref": ref},
                       "level_note": NOTE + note, "technique": TECH})
na = [{"property_id": p, "reason": NA.get(p, PENDING)} for p in props if p not in CLAIMED]
m = {
 "version": 1,
 "setup_cmd": "cd /verif/engine && PATH=/opt/veriftools/go1.26.8/bin:$PATH GOTOOLCHAIN=local GOFLAGS=-mod=mod GOPROXY=off go build -o /verif/bin/symgo ./cmd/symgo",
 "hooks": {"guard": "verif",
           "enable": "harnesses are //go:build verif files injected through packages.Config.Overlay / go test -overlay; /repo carries no instrumentation",
           "baseline_off_cmd": "for m in $(cat /w/out/gomods.txt); do MF=$(cd /repo/$m && . /w/out/goenv.sh && gomodflag); (cd /repo/$m && go test $MF -json -vet=off -count=1 -timeout 25m ./...); done",
           "source_commits": [], "add_only": True},
 "engines": [{"name": "symgo", "path": "/verif/engine", "serves_properties": sorted(CLAIMED),
              "kind_free_text": "bounded symbolic executor for Go SSA (golang.org/x/tools/go/ssa) emitting SMT-LIB2 to z3/cvc5; counterexamples replayed natively with go test -overlay"}],
 "checks": checks,
 "not_applicable": na,
 "notes": "fix: commits in /repo (genuine defects found by the checks) are listed in /verif/known_findings.json as status=fixed",
}
json.dump(m, open(os.path.join(V, "MANIFEST.json"), "w"), indent=1)
print("claimed:", sorted(CLAIMED), "not claimed:", [x["property_id"] for x in na])
