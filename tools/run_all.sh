#!/bin/bash
# run every claimed check (quick or thorough) on the current tree; prints one line per check
TIER="${1:-quick}"
cd /verif
for p in $(python3 -c "import json;print(' '.join(c['property_id'] for c in json.load(open('MANIFEST.json'))['checks']))"); do
  s=$(date +%s)
  out=$(bin/check $p --tier $TIER 2>&1); rc=$?
  e=$(( $(date +%s) - s ))
  echo "$p rc=$rc ${e}s $(echo "$out" | grep -cE '^VIOLATION') violations; $(echo "$out" | grep -E 'symgo tier' | tail -1 | cut -c1-160)"
  echo "$out" | grep -E "^(INCONCLUSIVE|KNOWN-FINDING)" | cut -c1-200 | sort | uniq -c | head -5
done
