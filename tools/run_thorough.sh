#!/bin/bash
# run_thorough.sh [ids...]: run the thorough tier of the given checks (default: all claimed), keep a
# copy of each evidence file under evidence-thorough/ and restore the committed quick evidence.
cd /verif
mkdir -p evidence-thorough
IDS="$@"
[ -z "$IDS" ] && IDS=$(python3 -c "import json;print(' '.join(c['property_id'] for c in json.load(open('MANIFEST.json'))['checks']))")
for p in $IDS; do
  s=$(date +%s)
  out=$(bin/check $p --tier thorough 2>&1); rc=$?
  e=$(( $(date +%s) - s ))
  cp evidence/$p.json evidence-thorough/$p.json
  git checkout -q -- evidence/$p.json 2>/dev/null
  {
    echo "$p rc=$rc ${e}s $(echo "$out" | grep -cE '^VIOLATION') violations; $(echo "$out" | grep -E 'symgo tier' | tail -1 | cut -c1-220)"
    echo "$out" | grep -E "^(INCONCLUSIVE|KNOWN-FINDING|VIOLATION)" | cut -c1-220 | sort | uniq -c | head -8
  } | tee -a evidence-thorough/LOG.txt
done
