#!/bin/bash
# try_seed.sh <patch.diff> <property> [tier]: apply a seeded change to /repo, run the check, undo.
set -u
PATCH="$1"; PROP="$2"; TIER="${3:-quick}"; ONLY="${4:+-only $4}"
cd /repo || exit 2
if [ -n "$(git status --porcelain)" ]; then echo "/repo not clean"; exit 2; fi
git apply "$PATCH" || { echo "patch does not apply"; exit 2; }
cd /verif
bin/check "$PROP" --tier "$TIER" $ONLY > /tmp/try_seed.out 2>&1
RC=$?
git -C /repo checkout -- . 
echo "exit=$RC"
grep -E "^(VIOLATION|KNOWN-FINDING|INCONCLUSIVE)|symgo tier" /tmp/try_seed.out | sed 's/_f[0-9]*\.json//' | sort | uniq -c | head -12
