#!/bin/bash
# try_seed_wt.sh <patch.diff> <property> [tier] [only]: like try_seed.sh but on a scratch worktree
# (so /repo stays untouched and other runs are not disturbed).
set -u
PATCH="$1"; PROP="$2"; TIER="${3:-quick}"; ONLY="${4:+-only $4}"
WT=${VERIF_WT:-/tmp/wt/mine}
cd $WT || exit 2
git checkout -q -- . ; git clean -fdq
git checkout -q --detach $(git -C /repo rev-parse HEAD)
git apply "$PATCH" || { echo "patch does not apply"; exit 2; }
cd /verif
bin/check "$PROP" --tier "$TIER" -repo $WT $ONLY > /tmp/try_seed_wt.out 2>&1
RC=$?
git -C $WT checkout -q -- . ; git -C $WT clean -fdq
echo "exit=$RC"
grep -E "^(VIOLATION|KNOWN-FINDING|INCONCLUSIVE)|symgo tier" /tmp/try_seed_wt.out | sed 's/_f[0-9]*\.json//' | sort | uniq -c | head -12
